"""C15 / C13 (tree-based searches see every particle): a tree walk only sees a particle if the particle sits in the leaf
whose cell contains it.  Particles move during the second half of the step (and are wrapped by the boundary check), after
the mid-step tree update; the collision search at the end of the step therefore must bring the tree up to date itself,
unconditionally, before it walks it.

Structural contract on the real reb_collision_search (AST of src/collision.c): in every `case` whose code walks the tree
(calls reb_tree_get_nearest_neighbour_in_cell or reb_tree_check_for_overlapping_trajectories_in_cell), a call to
reb_simulation_update_tree(r) is a top-level statement of the case (not guarded by any condition) and precedes the first
loop that walks the tree.  (What reb_simulation_update_tree itself guarantees is the local refinement / containment lemmas of
C15_boundary; the global invariant for arbitrary depth is not decided.)"""
from engine.api import Pack, Task
from engine import frames

FILES = ["src/collision.c"]
WALKERS = {"reb_tree_get_nearest_neighbour_in_cell", "reb_tree_check_for_overlapping_trajectories_in_cell"}
FN = "reb_collision_search"


def calls_in(n):
    return {frames.callee_name(x) for x in frames.walk(n) if x.get("kind") == "CallExpr"} - {None}


def task(v):
    tu, fn = v.eng.find_function(FN)
    cases = []

    def find_cases(n):
        if not isinstance(n, dict):
            return
        if n.get("kind") == "CaseStmt":
            inner = n.get("inner", [])
            label = next((x.get("referencedDecl", {}).get("name") for x in frames.walk(inner[0]) if x.get("kind") == "DeclRefExpr"), None)
            body = next((x for x in inner[1:] if isinstance(x, dict) and x.get("kind") == "CompoundStmt"), None)
            if label and body is not None:
                cases.append((label, body))
        for c in n.get("inner", ()):
            find_cases(c)
    find_cases(fn)
    tree_cases = [(l, b) for (l, b) in cases if calls_in(b) & WALKERS]
    v.ground("tree_walking_cases_found", len(tree_cases) >= 2, "cases that walk the tree: %s of %s" % ([l for l, _ in tree_cases], [l for l, _ in cases]))
    for label, body in tree_cases:
        top = [c for c in body.get("inner", ()) if isinstance(c, dict)]
        first_walk = next((k for k, c in enumerate(top) if calls_in(c) & WALKERS), None)
        upd = [k for k, c in enumerate(top) if frames.strip_casts(c).get("kind") == "CallExpr" and frames.callee_name(frames.strip_casts(c)) == "reb_simulation_update_tree"]
        v.ground("%s.tree_updated_unconditionally_before_the_walk" % label, bool(upd) and first_walk is not None and upd[0] < first_walk,
                 "top-level statements: %s; unconditional reb_simulation_update_tree at %s, first tree walk at %s"
                 % ([c.get("kind") for c in top], upd, first_walk))


def make(prop, why):
    P = Pack(prop, FILES, why)
    P.tasks.append(Task(P, "collision_search.tree_is_fresh", FN, task, files=FILES))
    return P


PACKS = [make("C15", "collision search updates the tree before walking it")]
