"""C15 / C13 (tree-based searches see every particle): a tree walk only sees a particle if the particle sits in the leaf
whose cell contains it.  Particles move during the second half of the step (and are wrapped by the boundary check), after
the mid-step tree update; the collision search at the end of the step therefore must bring the tree up to date itself,
unconditionally, before it walks it.

Structural contract on the real reb_collision_search (AST of src/collision.c): in every `case` whose code walks the tree
(calls reb_tree_get_nearest_neighbour_in_cell or reb_tree_check_for_overlapping_trajectories_in_cell), a call to
reb_simulation_update_tree(r) is a top-level statement of the case (not guarded by any condition) and precedes the first
loop that walks the tree.  (What reb_simulation_update_tree itself guarantees is the local refinement / containment lemmas of
C15_boundary; the global invariant for arbitrary depth is not decided.)"""
from engine.api import Pack, Task
from engine import frames

FILES = ["src/collision.c"]
WALKERS = {"reb_tree_get_nearest_neighbour_in_cell", "reb_tree_check_for_overlapping_trajectories_in_cell"}
FN = "reb_collision_search"


def calls_in(n):
    return {frames.callee_name(x) for x in frames.walk(n) if x.get("kind") == "CallExpr"} - {None}


def task(v):
    tu, fn = v.eng.find_function(FN)
    cases = []

    def find_cases(n):
        if not isinstance(n, dict):
            return
        if n.get("kind") == "CaseStmt":
            inner = n.get("inner", [])
            label = next((x.get("referencedDecl", {}).get("name") for x in frames.walk(inner[0]) if x.get("kind") == "DeclRefExpr"), None)
            body = next((x for x in inner[1:] if isinstance(x, dict) and x.get("kind") == "CompoundStmt"), None)
            if label and body is not None:
                cases.append((label, body))
        for c in n.get("inner", ()):
            find_cases(c)
    find_cases(fn)
    tree_cases = [(l, b) for (l, b) in cases if calls_in(b) & WALKERS]
    v.ground("tree_walking_cases_found", len(tree_cases) >= 2, "cases that walk the tree: %s of %s" % ([l for l, _ in tree_cases], [l for l, _ in cases]))
    for label, body in tree_cases:
        top = [c for c in body.get("inner", ()) if isinstance(c, dict)]
        first_walk = next((k for k, c in enumerate(top) if calls_in(c) & WALKERS), None)
        upd = [k for k, c in enumerate(top) if frames.strip_casts(c).get("kind") == "CallExpr" and frames.callee_name(frames.strip_casts(c)) == "reb_simulation_update_tree"]
        v.ground("%s.tree_updated_unconditionally_before_the_walk" % label, bool(upd) and first_walk is not None and upd[0] < first_walk,
                 "top-level statements: %s; unconditional reb_simulation_update_tree at %s, first tree walk at %s"
                 % ([c.get("kind") for c in top], upd, first_walk))


UPD = "reb_simulation_update_tree"


def members(n):
    return {x.get("name") for x in frames.walk(n) if x.get("kind") == "MemberExpr"}


def complete_task(v):
    """A module that uses the tree may be selected AFTER particles were added (sim.add(...); sim.collision = "tree"): those
    particles were never inserted (reb_simulation_add inserts only while a tree module is selected), so the tree walk did not see
    them -- no collision detected, no tree gravity (natively reproduced; repaired by a fix: commit).  Structural contract on the
    real reb_simulation_update_tree (src/tree.c), which every tree user calls before it walks the tree: before the root cells are
    updated, a loop over ALL particles (bound r->N) inserts every particle that is in no leaf yet (its back pointer `c` is NULL)
    with reb_tree_add_particle_to_tree, guarded by nothing but the box having been configured (root_size)."""
    tu, fn = v.eng.find_function(UPD)
    body = tu.body(fn)
    top = [c for c in body.get("inner", ()) if isinstance(c, dict)]
    first_update = next((k for k, c in enumerate(top) if "reb_simulation_update_tree_cell" in calls_in(c)), None)
    v.ground("root_cells_are_updated", first_update is not None, str([c.get("kind") for c in top]))
    found = []

    def visit(n, guards, k):
        if not isinstance(n, dict):
            return
        kind = n.get("kind")
        if kind == "ForStmt" and "reb_tree_add_particle_to_tree" in calls_in(n):
            inner = [c for c in n.get("inner", ()) if isinstance(c, dict)]
            cond = inner[2] if len(inner) >= 3 else {}
            ifs = [x for x in frames.walk(inner[-1]) if x.get("kind") == "IfStmt" and "reb_tree_add_particle_to_tree" in calls_in(x)]
            ok_guard = len(ifs) == 1 and "c" in members(ifs[0]["inner"][0]) and \
                any(x.get("kind") == "BinaryOperator" and x.get("opcode") == "==" for x in frames.walk(ifs[0]["inner"][0])) and \
                members(ifs[0]["inner"][0]) <= {"c", "particles"}
            found.append({"top_level_index": k, "bound_is_N": "N" in members(cond) and not ({"N_active", "N_var"} & members(cond)),
                          "inserts_iff_in_no_leaf": ok_guard, "outer_guards": sorted(set().union(*[members(g) for g in guards]) if guards else [])})
            return
        if kind == "IfStmt":
            inner = n.get("inner", [])
            for c in inner[1:]:
                visit(c, guards + [inner[0]], k)
            return
        for c in n.get("inner", ()):
            visit(c, guards, k)
    for k, c in enumerate(top):
        visit(c, [], k)
    v.ground("inserts_the_particles_that_are_in_no_leaf.loop_found", len(found) == 1, str(found))
    if len(found) != 1:
        return
    f = found[0]
    v.ground("inserts_the_particles_that_are_in_no_leaf.over_all_particles", f["bound_is_N"], str(f))
    v.ground("inserts_the_particles_that_are_in_no_leaf.exactly_those", f["inserts_iff_in_no_leaf"], str(f))
    v.ground("inserts_the_particles_that_are_in_no_leaf.whenever_the_box_is_configured", set(f["outer_guards"]) <= {"root_size"}, str(f))
    v.ground("inserts_the_particles_that_are_in_no_leaf.before_the_root_cells_are_updated",
             first_update is not None and f["top_level_index"] < first_update, "%s, root update at %s" % (f, first_update))


def make(prop, why):
    P = Pack(prop, FILES + ["src/tree.c"], why)
    P.tasks.append(Task(P, "collision_search.tree_is_fresh", FN, task, files=FILES))
    P.tasks.append(Task(P, "update_tree.tree_is_complete", UPD, complete_task, files=["src/tree.c"]))
    return P


PACKS = [make("C15", "collision search updates the tree before walking it")]
