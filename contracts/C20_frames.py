"""C20 (frames part): reb_simulation_move_to_hel / move_to_com / com and reb_simulation_imul / iadd / isub of src/tools.c.

Specification (from the property statement and the doc comments in rebound.h, not from the code):
  move_to_hel : x_i' = x_i - x_0, v_i' = v_i - v_0 for every real particle (so particle 0 ends at the origin at rest and
                all differences x_i - x_j are unchanged); a consistent first-order variation of this map is
                dx_i' = dx_i - dx_0 for every set of variational particles.
  move_to_com : x_i' = x_i - X with X = sum m_i x_i / sum m_i (same for velocities), so the centre of mass of the result
                is at the origin at rest; first-order variational particles (dx_i, dm_i) are shifted by the derivative
                dX = [sum (m_i dx_i + dm_i x_i)]/M - [sum m_i x_i][sum dm_i]/M^2   (differentiated in this pack with sympy).
  imul        : x,y,z *= scalar_pos, vx,vy,vz *= scalar_vel for every particle, nothing else changes.
  iadd / isub : component-wise +/- of x,y,z,vx,vy,vz of r2's particle i onto r's particle i; N != N2: return -1, no write.
R-mode (doubles as reals).  Sums over the symbolic particle range are uninterpreted prefix-sum functions.
"""
import itertools
import z3
from engine.api import Pack
from engine.csym import Contract, simp, as_real
from engine.mem import Ptr, StructObj

P = Pack("C20", ["src/tools.c", "src/boundary.c"], "frame shifts and linear combinations of simulations")
PACKS = [P]
P.assume("machine arithmetic treated as mathematical (doubles as reals); 'to rounding error' not decided")
P.assume("frames: prefix sums over the real particles  SM(i)=sum_{k<i} m_k,  S[a*b](i)=sum_{k<i} a_k*b_k  are "
         "uninterpreted functions defined by S(0)=0, S(k+1)=S(k)+term_k; the step equations are definitional and are "
         "instantiated at k=0 and at the loop index of each loop iteration (conservative extension)")
P.assume("frames: element-wise post-conditions are proved at arbitrary indices j (and i) chosen before the call (Skolem "
         "constants): this is the universally quantified statement")
P.assume("frames: preconditions: 0 <= N_var <= N; masses of the real particles are >= 0 (reb_particle_com_of_pair divides "
         "only when the accumulated mass is > 0; with a negative partial mass sum the code's result is not the centre of "
         "mass); move_to_com additionally needs total mass > 0 when variational particles exist (the code divides by com.m); "
         "r->boundary == REB_BOUNDARY_NONE and no tree (gravity != TREE, collision != TREE/LINETREE) so that the trailing "
         "reb_boundary_check / reb_simulation_update_tree calls do not move or remove particles; not MPI")
P.assume("frames: sets of variational particles lie behind the real particles and inside the array: N_real <= index, "
         "index + N_real <= N (established by reb_simulation_add_variation_1st_order)")
P.assume("frames: iadd/isub: r and r2 are different simulations with different particle arrays (the code declares both "
         "pointers restrict)")

P.assume("frames: a variational configuration that is not a test particle has var_config.testparticle == -1 (the value "
         "reb_simulation_add_variation_* stores; the code tests >= 0); second-order sets are disjoint from their first-order sets")
P.not_decided += [
    "frames: several variational configurations in one move_to_com call: each block (second-order, first-order, real "
    "particles) is proved for an ARBITRARY entry state of the particle array and to touch only its own set, with var_config "
    "holding exactly one configuration; the sequential composition over N_var_config configurations (outer loops; second-order "
    "pass before first-order pass, disjoint sets, so every block reads unshifted values) is not machine-checked",
    "frames: move_to_com with a tree (gravity/collision TREE, LINETREE) or a boundary condition other than NONE: the trailing "
    "reb_boundary_check / reb_simulation_update_tree may wrap or remove particles; MPI build",
    "frames: masses of either sign (a negative partial mass sum makes reb_particle_com_of_pair skip the normalisation)",
]
I, R = z3.IntSort(), z3.RealSort()
POS, VEL = ("x", "y", "z"), ("vx", "vy", "vz")
PV = POS + VEL
OTHER = ("ax", "ay", "az", "m", "r", "last_collision", "hash")
T = "struct reb_particle"


def arr(L, av, f):
    """current z3 array of leaf f of a symbolic array, read from the state the invariant is evaluated in"""
    return L.eng._leaf_array(L.st.mem.objs[av._a.id], (f,))


def field(L, sobj, f):
    return L.eng._lazy_field(sobj, f, L.st)


def snapshot(av, fields=PV + OTHER):
    return {f: av.array(f) for f in fields}


def sim(v, name="r", parts_name="P", N=None):
    r, rp = v.struct_obj("struct reb_simulation", name)
    N = N if N is not None else v.int("N")
    parts = v.array(T, None, parts_name)
    r.N = N
    r.particles = parts.ptr
    return r, rp, N, parts


def frame_all(v, parts, old, fields, tag="frame."):
    for f in fields:
        v.prove(tag + f, parts.array(f) == old[f])


# ====================================================================================================== imul
def elementwise_loop(v, fn, parts, old, N, done, skolems, extra=None):
    """invariant of `for i<N: particles[i].f op= ...` for the Skolem indices: updated below i, original from i on;
    all leaves other than x..vz unchanged.  done(f, k) = specified new value of leaf f at index k."""
    def inv(L):
        i = L.i
        out = [("range", z3.And(0 <= i, i <= N))]
        for jn, j in skolems:
            for f in PV:
                cur = z3.Select(arr(L, parts, f), j)
                out.append(("%s.%s" % (jn, f), z3.If(z3.And(0 <= j, j < i), cur == done(f, j), cur == z3.Select(old[f], j))))
        out.append(("frame", z3.And(*[arr(L, parts, f) == old[f] for f in OTHER])))
        if extra:
            out += extra(L)
        return out
    v.loop(fn, 0, invariant=inv, variant=lambda L: N - L.i)


@P.task("frames.imul", fn="reb_simulation_imul")
def _(v):
    r, rp, N, parts = sim(v)
    sp, sv = v.real("scalar_pos"), v.real("scalar_vel")
    v.assume(N >= 0)
    old = snapshot(parts)
    j = v.int("j")
    v.assume(0 <= j, j < N)
    o = v.int("o")                   # an index outside [0,N)
    v.assume(z3.Or(o < 0, o >= N))

    def done(f, k):
        return z3.Select(old[f], k) * (sp if f in POS else sv)
    elementwise_loop(v, "reb_simulation_imul", parts, old, N, done, [("j", j), ("o", o)])
    v.call("reb_simulation_imul", rp, sp, sv)
    for f in PV:
        v.prove("scaled." + f, parts.leaf(j, f) == done(f, j))
        v.prove("outside_untouched." + f, parts.leaf(o, f) == z3.Select(old[f], o))
    frame_all(v, parts, old, OTHER)
    v.prove("N_unchanged", r.N == N)


@P.task("frames.imul.composition", fn="reb_simulation_imul")
def _(v):
    """imul(a,b) then imul(c,d) = imul(a*c, b*d); with c=1/a, d=1/b the identity"""
    r, rp, N, parts = sim(v)
    a, b, c, d = v.real("a"), v.real("b"), v.real("c"), v.real("d")
    v.assume(N >= 0)
    old = snapshot(parts)
    j = v.int("j")
    v.assume(0 <= j, j < N)
    elementwise_loop(v, "reb_simulation_imul", parts, old, N, lambda f, k: z3.Select(old[f], k) * (a if f in POS else b), [("j", j)])
    v.call("reb_simulation_imul", rp, a, b)
    mid = snapshot(parts)
    elementwise_loop(v, "reb_simulation_imul", parts, mid, N, lambda f, k: z3.Select(mid[f], k) * (c if f in POS else d), [("j", j)])
    v.call("reb_simulation_imul", rp, c, d)
    for f in PV:
        v.prove("product." + f, parts.leaf(j, f) == z3.Select(old[f], j) * ((a * c) if f in POS else (b * d)))
    for f in PV:
        v.prove("inverse." + f, z3.Implies(z3.And(a * c == 1, b * d == 1), parts.leaf(j, f) == z3.Select(old[f], j)))


# ====================================================================================================== iadd / isub
def two_sims(v):
    r, rp, N, parts = sim(v, "r", "P")
    r2, r2p, N2, parts2 = sim(v, "r2", "P2", N=v.int("N2"))
    return r, rp, N, parts, r2, r2p, N2, parts2


def addsub_inv(v, fn, parts, parts2, old, old2, N, sign):
    k = z3.Int("k")

    def inv(L):
        i = L.i
        cur = {f: arr(L, parts, f) for f in PV}
        done = z3.ForAll([k], z3.Implies(z3.And(0 <= k, k < i), z3.And(*[
            z3.Select(cur[f], k) == z3.Select(old[f], k) + sign * z3.Select(old2[f], k) for f in PV])))
        todo = z3.ForAll([k], z3.Implies(z3.Or(k < 0, k >= i), z3.And(*[z3.Select(cur[f], k) == z3.Select(old[f], k) for f in PV])))
        frame = z3.And(*[arr(L, parts, f) == old[f] for f in OTHER] + [arr(L, parts2, f) == old2[f] for f in PV + OTHER])
        return [("range", z3.And(0 <= i, i <= N)), ("done", done), ("todo", todo), ("frame", frame)]
    v.loop(fn, 0, invariant=inv, variant=lambda L: N - L.i)


def addsub_task(fn, sign):
    @P.task("frames.%s" % fn[15:], fn=fn)
    def _(v):
        r, rp, N, parts, r2, r2p, N2, parts2 = two_sims(v)
        v.assume(N >= 0, N2 >= 0)
        old, old2 = snapshot(parts), snapshot(parts2)
        j = v.int("j")
        v.assume(0 <= j, j < N)
        o = v.int("o")
        v.assume(z3.Or(o < 0, o >= N))
        addsub_inv(v, fn, parts, parts2, old, old2, N, sign)
        ret = v.call(fn, rp, r2p)
        same = (N == N2)
        # the function returns on the mismatch path before the loop: both paths end here
        v.prove("return_value", ret == z3.If(same, 0, -1))
        for f in PV:
            v.prove("componentwise." + f, z3.Implies(same, parts.leaf(j, f) == z3.Select(old[f], j) + sign * z3.Select(old2[f], j)))
            v.prove("mismatch_no_write." + f, z3.Implies(z3.Not(same), parts.array(f) == old[f]))
            v.prove("outside_untouched." + f, parts.leaf(o, f) == z3.Select(old[f], o))
        frame_all(v, parts, old, OTHER)
        frame_all(v, parts2, old2, PV + OTHER, "frame_r2.")
        v.prove("N_unchanged", z3.And(r.N == N, r2.N == N2))
    return _


addsub_task("reb_simulation_iadd", 1)
addsub_task("reb_simulation_isub", -1)


@P.task("frames.iadd_then_isub.identity", fn="reb_simulation_isub")
def _(v):
    r, rp, N, parts, r2, r2p, N2, parts2 = two_sims(v)
    v.assume(N >= 0, N2 == N)
    old, old2 = snapshot(parts), snapshot(parts2)
    j = v.int("j")
    v.assume(0 <= j, j < N)
    addsub_inv(v, "reb_simulation_iadd", parts, parts2, old, old2, N, 1)
    r1 = v.call("reb_simulation_iadd", rp, r2p)
    mid = snapshot(parts)
    addsub_inv(v, "reb_simulation_isub", parts, parts2, mid, old2, N, -1)
    r2_ = v.call("reb_simulation_isub", rp, r2p)
    v.prove("returns_0", z3.And(r1 == 0, r2_ == 0))
    for f in PV:
        v.prove("restored." + f, parts.leaf(j, f) == z3.Select(old[f], j))
    # and the other way round
    addsub_inv(v, "reb_simulation_isub", parts, parts2, snapshot(parts), old2, N, -1)
    before = snapshot(parts)
    v.call("reb_simulation_isub", rp, r2p)
    mid2 = snapshot(parts)
    addsub_inv(v, "reb_simulation_iadd", parts, parts2, mid2, old2, N, 1)
    v.call("reb_simulation_iadd", rp, r2p)
    for f in PV:
        v.prove("isub_then_iadd." + f, parts.leaf(j, f) == z3.Select(before[f], j))


# ====================================================================================================== move_to_hel
def real_sim(v):
    r, rp, N, parts = sim(v)
    Nv = v.int("N_var")
    r.N_var = Nv
    v.assume(0 <= Nv, Nv <= N)
    return r, rp, N, Nv, N - Nv, parts


def skolem(v, name, lo, hi):
    j = v.int(name)
    v.assume(lo <= j, j < hi)
    return j


@P.task("frames.move_to_hel", fn="reb_simulation_move_to_hel")
def _(v):
    r, rp, N, Nv, Nr, parts = real_sim(v)
    old = snapshot(parts)
    i_, j = skolem(v, "i_", 0, Nr), skolem(v, "j", 0, Nr)
    o = v.int("o")
    v.assume(z3.Or(o < 0, o >= Nr))

    def inv(L):
        i = L.i
        out = [("range", z3.And(1 <= i, i <= Nr))]
        for sn, s in (("i_", i_), ("j", j), ("o", o)):
            for f in PV:
                cur = z3.Select(arr(L, parts, f), s)
                out.append(("%s.%s" % (sn, f), z3.If(z3.And(1 <= s, s < i), cur == z3.Select(old[f], s) - z3.Select(old[f], 0),
                                                     cur == z3.Select(old[f], s))))
        out.append(("frame", z3.And(*[arr(L, parts, f) == old[f] for f in OTHER])))
        return out
    v.loop("reb_simulation_move_to_hel", 0, invariant=inv, variant=lambda L: Nr - L.i)
    v.call("reb_simulation_move_to_hel", rp)
    for f in PV:
        v.prove("shift_by_particle0." + f, parts.leaf(j, f) == z3.Select(old[f], j) - z3.Select(old[f], 0))
        v.prove("relative_unchanged." + f, parts.leaf(i_, f) - parts.leaf(j, f) == z3.Select(old[f], i_) - z3.Select(old[f], j))
        v.prove("particle0_at_rest_at_origin." + f, parts.leaf(0, f) == 0)
        v.prove("outside_real_range_untouched." + f, parts.leaf(o, f) == z3.Select(old[f], o))
    frame_all(v, parts, old, OTHER)
    v.prove("N_unchanged", z3.And(r.N == N, r.N_var == Nv))


@P.task("frames.move_to_hel.empty", fn="reb_simulation_move_to_hel")
def _(v):
    r, rp, N, parts = sim(v)
    Nv = v.int("N_var")
    r.N_var = Nv
    v.assume(N - Nv <= 0)
    old = snapshot(parts)
    v.call("reb_simulation_move_to_hel", rp)
    frame_all(v, parts, old, PV + OTHER, "no_write.")


@P.task("frames.move_to_hel.variational", fn="reb_simulation_move_to_hel")
def _(v):
    """Consistent first-order variation of x_i' = x_i - x_0 is dx_i' = dx_i - dx_0 for every set of variational
    particles (set = N_real consecutive particles starting at var_config.index).
    FAILS on the unchanged tree (genuine finding, reported to the lead for known_findings.json): the function leaves
    variational particles untouched (its source says so), so afterwards they are derivatives of the inertial, not of
    the heliocentric coordinates.  Native witness (python): star + 2 planets, vary(1,"a"), integrate(3), move_to_hel():
    finite-difference d(x2_hel)/da = -0.0072477 = dx2 - dx0, variational particle 2 keeps x = -0.0058832 = dx2."""
    r, rp, N, Nv, Nr, parts = real_sim(v)
    old = snapshot(parts)
    idx = v.int("index")
    v.assume(Nr <= idx, idx + Nr <= N, Nr >= 1)
    s = skolem(v, "s", 0, Nr)

    def inv(L):
        i = L.i
        out = [("range", z3.And(1 <= i, i <= Nr))]
        for sn, q in (("var_s", idx + s), ("var_0", idx)):       # Skolem indices, both behind the real particles
            for f in PV:
                out.append(("%s.%s" % (sn, f), z3.Select(arr(L, parts, f), q) == z3.Select(old[f], q)))
        return out
    v.loop("reb_simulation_move_to_hel", 0, invariant=inv)
    v.call("reb_simulation_move_to_hel", rp)
    for f in PV:
        v.prove("shifted_consistently." + f, parts.leaf(idx + s, f) == z3.Select(old[f], idx + s) - z3.Select(old[f], idx))


# ====================================================================================================== centre of mass
ACC = ("ax", "ay", "az")
NINE = PV + ACC


@P.task("frames.com_of_pair", fn="reb_particle_com_of_pair")
def _(v):
    p1, p2 = v.struct(T, "p1"), v.struct(T, "p2")
    m1, m2 = p1.m, p2.m
    a = {f: p1[f] for f in NINE}
    b = {f: p2[f] for f in NINE}
    keep = {f: p1[f] for f in ("r", "last_collision", "hash")}
    c = v.call("reb_particle_com_of_pair", p1, p2)
    v.prove("mass", c.m == m1 + m2)
    for f in NINE:
        v.prove("weighted_mean." + f, z3.Implies(m1 + m2 > 0, c[f] * (m1 + m2) == a[f] * m1 + b[f] * m2))
        v.prove("zero_mass_unnormalised." + f, z3.Implies(z3.Not(m1 + m2 > 0), c[f] == a[f] * m1 + b[f] * m2))
    v.prove("other_members_of_p1", z3.And(*[c[f] == keep[f] for f in keep]))


class Sums:
    """uninterpreted prefix sums over index ranges [0,i): SM = sum m_k, W[name] = sum a_k*b_k for named products"""

    def __init__(self, tag=""):
        self.tag = tag
        self.fs = {}
        self.terms = {}

    def define(self, name, term):
        """term(k) -> z3 real: the k-th summand"""
        self.fs[name] = z3.Function("S_%s%s" % (self.tag, name), I, R)
        self.terms[name] = term

    def __call__(self, name, i):
        return self.fs[name](simp(i) if isinstance(i, z3.ExprRef) else z3.IntVal(i))

    def base(self):
        return [self.fs[n](z3.IntVal(0)) == 0 for n in self.fs]

    def step(self, k, names=None):
        k = simp(k) if isinstance(k, z3.ExprRef) else z3.IntVal(k)
        return [self.fs[n](simp(k + 1)) == self.fs[n](k) + self.terms[n](k) for n in (names or self.fs)]


def mass_sums(old, fields=NINE):
    S = Sums()
    S.define("m", lambda k: z3.Select(old["m"], k))
    for f in fields:
        S.define("m*" + f, lambda k, f=f: z3.Select(old["m"], k) * z3.Select(old[f], k))
    return S


def nonneg_masses(old, Nr):
    k = z3.Int("k")
    return z3.ForAll([k], z3.Implies(z3.And(0 <= k, k < Nr), z3.Select(old["m"], k) >= 0))


def com_post(S, Nr, val, fields):
    """contract of reb_simulation_com: val = returned struct view (val('x') ...)"""
    M = S("m", Nr)
    out = [("mass", val("m") == M)]
    for f in fields:
        out.append(("weighted_mean." + f, z3.If(M > 0, val(f) * M == S("m*" + f, Nr), val(f) == 0)))
    return out


def com_loop(v, S, old, Nr, target, fields):
    """invariant of the loop of reb_simulation_com_range(r, 0, N_real); target(f, i) = expected value of com.f * com.m"""
    def inv(L):
        i = L.i
        com = L.com
        L.st.assume(z3.And(*S.step(i)))                                   # definitional step equations at the loop index
        L.st.assume(z3.Implies(z3.And(0 <= i, i < Nr), z3.Select(old["m"], i) >= 0))     # instance of the mass precondition
        cm = field(L, com, "m")
        out = [("range", z3.And(0 <= i, i <= Nr, L.first == 0, L.last == Nr)), ("mass", cm == S("m", i)), ("mass_nonneg", cm >= 0)]
        for f in fields:
            cf = field(L, com, f)
            out.append(("mean." + f, z3.If(cm > 0, cf * cm == target(f, i), z3.And(cf == 0, target(f, i) == 0))))
        return out
    v.loop("reb_simulation_com_range", 0, invariant=inv, variant=lambda L: Nr - L.i)


@P.task("frames.com.summary", fn="reb_simulation_com")
def _(v):
    """reb_simulation_com returns total mass and, when it is positive, the mass-weighted mean of x..az of the real
    particles (real body of reb_simulation_com_range and reb_particle_com_of_pair); it writes nothing."""
    r, rp, N, Nv, Nr, parts = real_sim(v)
    old = snapshot(parts)
    S = mass_sums(old)
    v.assume(*S.base())
    v.assume(nonneg_masses(old, Nr))
    com_loop(v, S, old, Nr, lambda f, i: S("m*" + f, i), NINE)
    c = v.call("reb_simulation_com", rp)
    for nm, g in com_post(S, Nr, lambda f: c[f], NINE):
        v.prove(nm, g)
    frame_all(v, parts, old, PV + OTHER, "no_write.")


# ====================================================================================================== move_to_com
def cut(L, name, eq):
    """ghost assertion at a loop entry: prove eq here (its own obligation), then use it as a hypothesis.  Used to turn
    'the previous loop ended with i == N_real' into syntactic equalities S(name, i_exit) == S(name, N_real) that the
    ideal-membership back end can use."""
    L.eng.check_then_assume(L.st, name, simp(eq), "lemma")


def com_contract(v, S, old, Nr, C, M):
    """reb_simulation_com by contract (proved against the real bodies in frames.com.summary): returns a particle with
    m = M = SM(N_real) and x..vz = C[f]; facts: M == S_m(N_real), M > 0 -> C_f*M == S_{m*f}(N_real), else C_f == 0."""
    def apply(eng, st, args, n):
        eng.oblige(st, "reb_simulation_com.callsite.pre.masses_nonneg", nonneg_masses(old, Nr), "pre", n)
        eng.oblige(st, "reb_simulation_com.callsite.pre.N_real_nonneg", Nr >= 0, "pre", n)
        t = eng.ctype(T)
        s = eng.sym_value(t, "com")
        s.fields["m"] = M
        for f in PV:
            s.fields[f] = C[f]
        for nm, g in com_post(S, Nr, lambda f: M if f == "m" else C[f], PV):
            st.assume(g)
        return s
    v.contract("reb_simulation_com", apply)


def move_to_com_setup(v, nconf):
    r, rp, N, Nv, Nr, parts = real_sim(v)
    r.boundary = v.enumc("REB_BOUNDARY_NONE")
    v.assume(r.gravity != v.enumc("REB_GRAVITY_TREE"), r.collision != v.enumc("REB_COLLISION_TREE"),
             r.collision != v.enumc("REB_COLLISION_LINETREE"))
    r.N_var_config = nconf
    vc = None
    if nconf:
        vc = v.array("struct reb_variational_configuration", nconf, "VC", sym=False)
        r.var_config = vc.ptr
    old = snapshot(parts)
    S = mass_sums(old, PV)
    v.assume(*S.base())
    v.assume(nonneg_masses(old, Nr))
    C = {f: v.real("X_" + f) for f in PV}
    M = v.real("M")
    com_contract(v, S, old, Nr, C, M)

    def unreachable(eng, st, args, n):
        eng.oblige(st, "reb_simulation_update_tree.not_called_without_tree", z3.BoolVal(False), "pre", n)
        return None
    v.contract("reb_simulation_update_tree", unreachable)
    return r, rp, N, Nv, Nr, parts, vc, old, S, C, M


def real_shift_loop(v, parts, Nr, base, C, ordinal=8, extra=None):
    """last loop of move_to_com: particles[i].f -= com.f for i < N_real; base() = arrays at loop entry (captured lazily)"""
    k = z3.Int("k")
    ent = {}

    def inv(L):
        i = L.i
        if not ent:
            ent.update({f: arr(L, parts, f) for f in PV})       # first evaluation = loop entry
        cur = {f: arr(L, parts, f) for f in PV}
        done = z3.ForAll([k], z3.Implies(z3.And(0 <= k, k < i), z3.And(*[z3.Select(cur[f], k) == z3.Select(ent[f], k) - C[f] for f in PV])))
        todo = z3.ForAll([k], z3.Implies(z3.Or(k < 0, k >= i), z3.And(*[z3.Select(cur[f], k) == z3.Select(ent[f], k) for f in PV])))
        out = [("range", z3.And(0 <= i, i <= Nr)), ("done", done), ("todo", todo),
               ("frame", z3.And(*[arr(L, parts, f) == base[f] for f in OTHER]))]
        if extra:
            out += extra(L, ent)
        return out
    v.loop("reb_simulation_move_to_com", ordinal, invariant=inv, variant=lambda L: Nr - L.i)
    return ent


@P.task("frames.move_to_com.real_particles", fn="reb_simulation_move_to_com")
def _(v):
    """no variational configurations: every real particle is shifted by the centre of mass that reb_simulation_com
    returns; afterwards the REAL reb_simulation_com, run on the result, returns position 0 and velocity 0."""
    r, rp, N, Nv, Nr, parts, vc, old, S, C, M = move_to_com_setup(v, 0)
    i_, j = skolem(v, "i_", 0, Nr), skolem(v, "j", 0, Nr)
    o = v.int("o")
    v.assume(z3.Or(o < 0, o >= Nr))
    real_shift_loop(v, parts, Nr, old, C)
    v.call("reb_simulation_move_to_com", rp)
    for f in PV:
        v.prove("shift_by_com." + f, parts.leaf(j, f) == z3.Select(old[f], j) - C[f])
        v.prove("relative_unchanged." + f, parts.leaf(i_, f) - parts.leaf(j, f) == z3.Select(old[f], i_) - z3.Select(old[f], j))
        v.prove("outside_real_range_untouched." + f, parts.leaf(o, f) == z3.Select(old[f], o))
    frame_all(v, parts, old, OTHER)
    v.prove("N_unchanged", z3.And(r.N == N, r.N_var == Nv))
    # reference point at rest at the origin: execute the real reb_simulation_com on the post-state
    v.eng.contracts.pop("reb_simulation_com", None)
    com_loop(v, S, old, Nr, lambda f, i: S("m*" + f, i) - C[f] * S("m", i), PV)
    c2 = v.call("reb_simulation_com", rp)
    v.prove("com_after.mass", c2.m == M)
    for f in PV:
        v.prove("com_after.at_rest_at_origin." + f, c2[f] == 0, order=("z3slice", "z3", "cvc5"))


# ------------------------------------------------------------------------------------------ first-order variations
def derive_first_order(n):
    """sympy: differentiate X(eps) = sum m_i(eps) x_i(eps) / sum m_i(eps) at eps = 0 with m_i(eps) = m_i + eps dm_i,
    x_i(eps) = x_i + eps dx_i, and compare with the closed form in sums used as specification."""
    import sympy as sp
    eps = sp.Symbol("eps")
    m = sp.symbols("m0:%d" % n)
    x = sp.symbols("x0:%d" % n)
    dm = sp.symbols("dm0:%d" % n)
    dx = sp.symbols("dx0:%d" % n)
    me = [m[i] + eps * dm[i] for i in range(n)]
    xe = [x[i] + eps * dx[i] for i in range(n)]
    X = sum(a * b for a, b in zip(me, xe)) / sum(me)
    dX = sp.diff(X, eps).subs(eps, 0)
    M = sum(m)
    X0 = sum(a * b for a, b in zip(m, x)) / M
    closed = (sum(a * b for a, b in zip(m, dx)) + sum(a * b for a, b in zip(x, dm))) / M - X0 * sum(dm) / M
    ok1 = sp.simplify(dX - closed) == 0
    # after the shift x_i' = x_i - X0, dx_i' = dx_i - dX the centre of mass stays at 0 to first order
    xs = [x[i] - X0 + eps * (dx[i] - closed) for i in range(n)]
    X2 = sum(a * b for a, b in zip(me, xs)) / sum(me)
    ok2 = sp.simplify(X2.subs(eps, 0)) == 0 and sp.simplify(sp.diff(X2, eps).subs(eps, 0)) == 0
    return ok1, ok2


def var_sums(S, old, idx, tag=""):
    """prefix sums that involve the variational set starting at idx (dx_k, dm_k = particle idx+k)"""
    S.define(tag + "dm", lambda k: z3.Select(old["m"], k + idx))
    for f in PV:
        S.define(tag + "m*d" + f, lambda k, f=f: z3.Select(old["m"], k) * z3.Select(old[f], k + idx))
        S.define(tag + f + "*dm", lambda k, f=f: z3.Select(old[f], k) * z3.Select(old["m"], k + idx))


def dX_spec(S, C, M, Nr, f, tag=""):
    """first-order variation of the centre of mass (see derive_first_order)"""
    return (S(tag + "m*d" + f, Nr) + S(tag + f + "*dm", Nr)) / M - C[f] * S(tag + "dm", Nr) / M


def first_order_loops(v, parts, old, S, C, M, Nr, idx, comps):
    """invariants of the three inner loops of the first-order block for the components `comps` (the accumulators of
    the other components are left unconstrained: one task per component keeps every obligation small)"""
    k = z3.Int("k")
    names5 = ["dm"]
    names6 = ["m*" + f for f in comps] + ["m*d" + f for f in comps] + [f + "*dm" for f in comps]

    def at_head(names):
        """variant callback = head of the arbitrary iteration (invariant and loop condition assumed): the place where
        the definitional step equations of the prefix sums are instantiated at the loop index"""
        def variant(L):
            L.st.assume(z3.And(*S.step(L.i, names)))
            return Nr - L.i
        return variant

    seen = {}

    def inv5(L):
        i = L.i
        return [("range", z3.And(0 <= i, i <= Nr)), ("dm", as_real(L.dm) == S("dm", i))]
    v.loop("reb_simulation_move_to_com", 5, invariant=inv5, variant=at_head(names5))

    def inv6(L):
        i = L.i
        seen["i6"] = i                  # the last evaluation before the exit path continues is the loop head: i at exit
        cs = L.com_shift
        dm = as_real(L.dm)
        if "cut6" not in seen:
            seen["cut6"] = True
            cut(L, "frames.first_order.exit5.dm", dm == S("dm", Nr))
        out = [("range", z3.And(0 <= i, i <= Nr))]
        for f in comps:
            out.append(("acc." + f, field(L, cs, f) == (S("m*d" + f, i) + S(f + "*dm", i)) / M - S("m*" + f, i) * dm / (M * M)))
        return out
    v.loop("reb_simulation_move_to_com", 6, invariant=inv6, variant=at_head(names6))

    def inv7(L):
        i = L.i
        cs = L.com_shift
        cur = {f: arr(L, parts, f) for f in PV}
        sh = {f: field(L, cs, f) for f in PV}
        inset = z3.And(idx <= k, k < idx + i)
        if "cut7" not in seen:
            seen["cut7"] = True
            for nm in names6:
                cut(L, "frames.first_order.exit6." + nm, S(nm, seen["i6"]) == S(nm, Nr))
            for f in comps:
                cut(L, "frames.first_order.com_is_weighted_mean." + f, S("m*" + f, Nr) == C[f] * M)
        out = [("range", z3.And(0 <= i, i <= Nr))]
        for f in comps:
            out.append(("shift_is_dX." + f, sh[f] == dX_spec(S, C, M, Nr, f)))
        out.append(("done", z3.ForAll([k], z3.Implies(inset, z3.And(*[z3.Select(cur[f], k) == z3.Select(old[f], k) - sh[f] for f in PV])))))
        out.append(("todo", z3.ForAll([k], z3.Implies(z3.Not(inset), z3.And(*[z3.Select(cur[f], k) == z3.Select(old[f], k) for f in PV])))))
        out.append(("frame", z3.And(*[arr(L, parts, f) == old[f] for f in OTHER])))
        return out
    v.loop("reb_simulation_move_to_com", 7, invariant=inv7, variant=lambda L: Nr - L.i)


def set_config(vc, i, **kw):
    for k_, val in kw.items():
        vc.obj.items[i].fields[k_] = val if isinstance(val, z3.ExprRef) else z3.IntVal(val)


def first_order_task(comp):
    @P.task("frames.move_to_com.first_order_variation.%s" % comp, fn="reb_simulation_move_to_com")
    def _(v):
        """one set of first-order variational particles (order 1, not a test particle, index arbitrary behind the real
        particles): component `comp` of each is shifted by dX, the derivative of the centre of mass; real particles by X
        and everything else untouched (all components)."""
        if comp == "x":
            for n in (1, 2, 3):
                ok1, ok2 = derive_first_order(n)
                v.ground("spec.dX_is_derivative_of_com.N%d" % n, ok1, "sympy: d/d(eps) of sum(m x)/sum(m) equals the closed form in sums")
                v.ground("spec.com_stays_at_origin_to_first_order.N%d" % n, ok2, "sympy: after both shifts X' = 0 and dX' = 0")
        r, rp, N, Nv, Nr, parts, vc, old, S, C, M = move_to_com_setup(v, 1)
        idx = v.int("index")
        set_config(vc, 0, order=1, testparticle=-1, index=idx)
        v.assume(Nr <= idx, idx + Nr <= N, M > 0)
        var_sums(S, old, idx)
        v.assume(*S.base())
        j = skolem(v, "j", 0, Nr)
        s = skolem(v, "s", 0, Nr)
        o = v.int("o")
        v.assume(z3.Or(o < 0, z3.And(o >= Nr, o < idx), o >= idx + Nr))
        first_order_loops(v, parts, old, S, C, M, Nr, idx, (comp,))
        real_shift_loop(v, parts, Nr, old, C)
        v.call("reb_simulation_move_to_com", rp)
        v.prove("variational_shift_by_dX." + comp, parts.leaf(idx + s, comp) == z3.Select(old[comp], idx + s) - dX_spec(S, C, M, Nr, comp))
        for f in PV:
            v.prove("real_shift_by_com." + f, parts.leaf(j, f) == z3.Select(old[f], j) - C[f])
            v.prove("others_untouched." + f, parts.leaf(o, f) == z3.Select(old[f], o))
        frame_all(v, parts, old, OTHER)
    return _


for _c in PV:
    first_order_task(_c)


@P.task("frames.move_to_com.testparticle_variation", fn="reb_simulation_move_to_com")
def _(v):
    """a variational configuration that describes a test particle (var_config.testparticle >= 0) has a single
    variational particle of zero mass: the centre of mass does not depend on it, nothing but the real particles moves."""
    r, rp, N, Nv, Nr, parts, vc, old, S, C, M = move_to_com_setup(v, 1)
    idx, tp = v.int("index"), v.int("testparticle")
    set_config(vc, 0, order=v.int("order"), testparticle=tp, index=idx)
    v.assume(tp >= 0, Nr <= idx, idx < N)
    j = skolem(v, "j", 0, Nr)
    o = v.int("o")
    v.assume(z3.Or(o < 0, o >= Nr))
    # the blocks guarded by testparticle < 0 are unreachable; their loops still need (trivial) specifications
    for ordinal in (1, 2, 3, 5, 6, 7):
        v.loop("reb_simulation_move_to_com", ordinal, invariant=lambda L: [("unreachable", z3.BoolVal(False))])
    real_shift_loop(v, parts, Nr, old, C)
    v.call("reb_simulation_move_to_com", rp)
    for f in PV:
        v.prove("real_shift_by_com." + f, parts.leaf(j, f) == z3.Select(old[f], j) - C[f])
        v.prove("variational_and_others_untouched." + f, parts.leaf(o, f) == z3.Select(old[f], o))
    frame_all(v, parts, old, OTHER)


# ------------------------------------------------------------------------------------------ second-order variations
def derive_second_order(n):
    """sympy: mixed second derivative of X(a,b) = sum m_i x_i / sum m_i at a=b=0 with
    m_i = m_i + a dma_i + b dmb_i + a b ddm_i (same for x) versus the closed form in sums used as specification."""
    import sympy as sp
    a, b = sp.symbols("a b")
    sy = {nm: sp.symbols("%s0:%d" % (nm, n)) for nm in ("m", "x", "dma", "dmb", "ddm", "dxa", "dxb", "ddx")}
    me = [sy["m"][i] + a * sy["dma"][i] + b * sy["dmb"][i] + a * b * sy["ddm"][i] for i in range(n)]
    xe = [sy["x"][i] + a * sy["dxa"][i] + b * sy["dxb"][i] + a * b * sy["ddx"][i] for i in range(n)]
    X = sum(p * q for p, q in zip(me, xe)) / sum(me)
    d2 = sp.diff(X, a, b).subs({a: 0, b: 0})

    def dot(u, w):
        return sum(p * q for p, q in zip(sy[u], sy[w]))
    M = sum(sy["m"])
    closed = ddX_closed(lambda u, w: dot(u, w), lambda u: sum(sy[u]), M)
    return sp.simplify(d2 - closed) == 0


def ddX_closed(dot, tot, M):
    """d^2 X / da db  for X = A/M, A = sum m x:  A_ab/M - A_a M_b/M^2 - A_b M_a/M^2 - A M_ab/M^2 + 2 A M_a M_b/M^3"""
    A = dot("m", "x")
    A_a = dot("dma", "x") + dot("m", "dxa")
    A_b = dot("dmb", "x") + dot("m", "dxb")
    A_ab = dot("ddm", "x") + dot("dma", "dxb") + dot("dmb", "dxa") + dot("m", "ddx")
    Ma, Mb, Mab = tot("dma"), tot("dmb"), tot("ddm")
    return A_ab / M - A_a * Mb / (M * M) - A_b * Ma / (M * M) - A * Mab / (M * M) + 2 * A * Ma * Mb / (M * M * M)


def second_order_task(comp):
    @P.task("frames.move_to_com.second_order_variation.%s" % comp, fn="reb_simulation_move_to_com")
    def _(v):
        """one set of second-order variational particles (index c) belonging to the first-order sets at a and b: component
        `comp` of each is shifted by the mixed second derivative of the centre of mass, computed from the unshifted
        first-order particles; nothing else but the real particles moves (first-order configurations absent here)."""
        if comp == "x":
            for n in (1, 2):
                v.ground("spec.ddX_is_second_derivative_of_com.N%d" % n, derive_second_order(n),
                         "sympy: d^2/(da db) of sum(m x)/sum(m) equals the closed form in sums")
        r, rp, N, Nv, Nr, parts, vc, old, S, C, M = move_to_com_setup(v, 1)
        ia, ib, ic = v.int("index_a"), v.int("index_b"), v.int("index")
        set_config(vc, 0, order=2, testparticle=-1, index=ic, index_1st_order_a=ia, index_1st_order_b=ib)
        for q in (ia, ib, ic):
            v.assume(Nr <= q, q + Nr <= N)
        v.assume(M > 0)
        # the three sets are different sets (a == b is allowed: second derivative with respect to one parameter)
        v.assume(z3.Or(ic + Nr <= ia, ia + Nr <= ic), z3.Or(ic + Nr <= ib, ib + Nr <= ic))
        f = comp
        off = {"m": None, "x": None, "dma": ia, "dmb": ib, "ddm": ic, "dxa": ia, "dxb": ib, "ddx": ic}
        leaf = {"m": "m", "x": f, "dma": "m", "dmb": "m", "ddm": "m", "dxa": f, "dxb": f, "ddx": f}

        def el(u, k):
            return z3.Select(old[leaf[u]], k if off[u] is None else k + off[u])
        pairs = [("m", "x"), ("dma", "x"), ("m", "dxa"), ("dmb", "x"), ("m", "dxb"), ("ddm", "x"), ("dma", "dxb"), ("dmb", "dxa"), ("m", "ddx")]
        for (u, w) in pairs:
            if (u, w) != ("m", "x"):
                S.define("%s.%s" % (u, w), lambda k, u=u, w=w: el(u, k) * el(w, k))
        for u in ("dma", "dmb", "ddm"):
            S.define(u, lambda k, u=u: el(u, k))
        v.assume(*S.base())

        def dotS(i):
            return lambda u, w: S("m*" + f, i) if (u, w) == ("m", "x") else S("%s.%s" % (u, w), i)
        k = z3.Int("k")

        def at_head(names):
            def variant(L):
                L.st.assume(z3.And(*S.step(L.i, names)))
                return Nr - L.i
            return variant

        def inv1(L):
            i = L.i
            return [("range", z3.And(0 <= i, i <= Nr)), ("dma", as_real(L.dma) == S("dma", i)), ("dmb", as_real(L.dmb) == S("dmb", i)),
                    ("ddm", as_real(L.ddm) == S("ddm", i))]
        v.loop("reb_simulation_move_to_com", 1, invariant=inv1, variant=at_head(["dma", "dmb", "ddm"]))

        seen = {}
        names2 = ["m*" + f] + ["%s.%s" % p_ for p_ in pairs if p_ != ("m", "x")]

        def inv2(L):
            i = L.i
            seen["i2"] = i
            tot = {"dma": as_real(L.dma), "dmb": as_real(L.dmb), "ddm": as_real(L.ddm)}
            if "cut2" not in seen:
                seen["cut2"] = True
                for u in tot:
                    cut(L, "frames.second_order.exit1." + u, tot[u] == S(u, Nr))
            return [("range", z3.And(0 <= i, i <= Nr)),
                    ("acc." + f, field(L, L.com_shift, f) == ddX_closed(dotS(i), lambda u: tot[u], M))]
        v.loop("reb_simulation_move_to_com", 2, invariant=inv2, variant=at_head(names2))
        spec = ddX_closed(dotS(Nr), lambda u: S(u, Nr), M)

        def inv3(L):
            i = L.i
            cur = {g: arr(L, parts, g) for g in PV}
            sh = {g: field(L, L.com_shift, g) for g in PV}
            inset = z3.And(ic <= k, k < ic + i)
            if "cut3" not in seen:
                seen["cut3"] = True
                for nm in names2:
                    cut(L, "frames.second_order.exit2." + nm, S(nm, seen["i2"]) == S(nm, Nr))
            return [("range", z3.And(0 <= i, i <= Nr)), ("shift_is_ddX." + f, sh[f] == spec),
                    ("done", z3.ForAll([k], z3.Implies(inset, z3.And(*[z3.Select(cur[g], k) == z3.Select(old[g], k) - sh[g] for g in PV])))),
                    ("todo", z3.ForAll([k], z3.Implies(z3.Not(inset), z3.And(*[z3.Select(cur[g], k) == z3.Select(old[g], k) for g in PV])))),
                    ("frame", z3.And(*[arr(L, parts, g) == old[g] for g in OTHER]))]
        v.loop("reb_simulation_move_to_com", 3, invariant=inv3, variant=lambda L: Nr - L.i)
        real_shift_loop(v, parts, Nr, old, C)
        j, s_ = skolem(v, "j", 0, Nr), skolem(v, "s", 0, Nr)
        o = v.int("o")
        v.assume(z3.Or(o < 0, z3.And(o >= Nr, o < ic), o >= ic + Nr))
        v.call("reb_simulation_move_to_com", rp)
        # the spec with the centre of mass X in place of A/M:  A = X*M
        v.prove("variational_shift_by_ddX." + f, parts.leaf(ic + s_, f) == z3.Select(old[f], ic + s_) - spec)
        v.prove("spec_uses_com." + f, S("m*" + f, Nr) == C[f] * M)
        for g in PV:
            v.prove("real_shift_by_com." + g, parts.leaf(j, g) == z3.Select(old[g], j) - C[g])
            v.prove("first_order_and_others_untouched." + g, parts.leaf(o, g) == z3.Select(old[g], o))
        frame_all(v, parts, old, OTHER)
    return _


for _c in PV:
    second_order_task(_c)
