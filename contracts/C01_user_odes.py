"""C01 (user-defined ODEs coupled to an N-body integrator other than BS): reb_integrator_part2 advances the user ODEs with
Bulirsch-Stoer sub-steps over the N-body step that has just been completed.  For the coupled system to converge at the
order of the N-body scheme the ODEs must be advanced over exactly that interval:

    start  = r->t - r->dt_last_done      (dt_last_done is the length of the completed step; r->dt may already hold the
                                          NEXT step proposed by an adaptive integrator)
    every sub-step keeps the direction of the completed step and never passes r->t; an accepted sub-step advances the
    local clock by exactly its length; the loop can only be left with the local clock at r->t (to the stated relative 1e-15)

Contract on the real reb_integrator_part2 (src/integrator.c); the per-integrator part2 is used through the step contract
proved in C08 (t' = t + dt_last_done', dt_last_done' != 0, dt' arbitrary), reb_integrator_bs_step through the contract
proved in C08_adaptive (returns 0/1, does not write r->t, proposes any non-zero dt)."""
import z3
from engine.api import Pack
from engine.csym import as_real, as_int, LoopSpec
from engine.mem import Ptr

FILE = "src/integrator.c"
FN = "reb_integrator_part2"
P = Pack("C01", [FILE], "user ODEs are advanced over the completed N-body step")
PACKS = [P]
P.assume("user-ODE task: the N-body part2 of every integrator meets the step contract t' = t + dt_last_done', dt_last_done' != 0 "
         "(C08 stepcontract.*); reb_integrator_bs_step returns 0 or 1, leaves r->t, r->dt, r->dt_last_done alone and sets "
         "ri_bs.dt_proposed to a non-zero value (C08 stepcontract.bs.step); reb_sigint is arbitrary")
P.not_decided += ["user ODEs: termination of the sub-step loop (a sequence of rejected BS steps), accuracy of the BS sub-integration "
                  "itself (C01_bs), and the floating-point remainder |r->t - t| <= 1e-15 |r->t| left when the loop ends"]


def absr(x):
    return z3.If(x >= 0, x, -x)


@P.task("integrator_part2.user_odes_cover_the_completed_step", fn=FN)
def _(v):
    eng = v.eng
    eng.check_defined = False
    r, rp = v.struct_obj("struct reb_simulation", "r")
    t0, dt0 = v.real("t"), v.real("dt")
    r.t, r.dt, r.dt_last_done = t0, dt0, v.real("dt_last_done_before")
    r.N_odes = v.int("N_odes")
    v.assume(r.N_odes >= 1)
    # integrator: any enumerator of the real enum except BS (BS advances the ODEs itself)
    integ = v.int("integrator")
    r.integrator = integ
    v.assume(integ != v.enumc("REB_INTEGRATOR_BS"), dt0 != 0)
    # the integrators the dispatcher knows (an integrator id without a case performs no step at all)
    tu_, fn_ = eng.find_function(FN)
    from engine import frames as _fr
    cases = sorted({(n.get("referencedDecl") or {}).get("name") for n in _fr.walk(fn_)
                    if n.get("kind") == "DeclRefExpr" and str((n.get("referencedDecl") or {}).get("name", "")).startswith("REB_INTEGRATOR_")} - {None})
    v.ground("dispatcher_cases_found", len(cases) >= 10, str(cases))
    v.assume(z3.Or(*[integ == v.enumc(c) for c in cases]))
    eng.havoc_calls |= {"reb_simulation_warning", "reb_simulation_error"}
    S = {}

    def part2(e, st, args, n):
        dld = e.fresh("dt_done", z3.RealSort())
        st.assume(dld != 0)
        told = as_real(e.read(st, Ptr(rp.obj, ("t",))))
        e.write(st, Ptr(rp.obj, ("t",)), told + dld)
        e.write(st, Ptr(rp.obj, ("dt_last_done",)), dld)
        e.write(st, Ptr(rp.obj, ("dt",)), e.fresh("dt_next", z3.RealSort()))
    tu, fn = eng.find_function(FN)
    from engine import frames
    for c in sorted({frames.callee_name(n) for n in frames.walk(fn) if n.get("kind") == "CallExpr"} - {None}):
        if c.startswith("reb_integrator_") and c.endswith("_part2"):
            v.contract(c, part2)

    def bs_step(e, st, args, n):
        dt = as_real(args[1])
        if "dld" not in S:
            raise AssertionError("BS sub-step outside the sub-step loop")
        tend = as_real(e.read(st, Ptr(rp.obj, ("t",))))
        tloc = as_real(e.local(st, "t"))
        fwd = z3.If(S["dld"] > 0, 1, -1)
        e.oblige(st, "integrator_part2.user_odes.substep.keeps_direction_of_the_completed_step", dt * fwd > 0, "pre", n)
        e.oblige(st, "integrator_part2.user_odes.substep.does_not_pass_end_of_step", (tend - (tloc + dt)) * fwd >= 0, "pre", n)
        prop = e.fresh("dt_proposed", z3.RealSort())
        st.assume(prop != 0)                      # C08 stepcontract.bs.step: dt_proposed * dt > 0 on every return
        e.write(st, Ptr(rp.obj, ("ri_bs", "dt_proposed")), prop)
        ok = e.fresh("success", z3.IntSort())
        st.assume(z3.Or(ok == 0, ok == 1))
        return ok
    v.contract("reb_integrator_bs_step", bs_step)
    loops = v.loops_of(FN)
    v.ground("one_substep_loop", len(loops) == 1, str(loops))
    if len(loops) != 1:
        from engine.cexec import PathEnd
        raise PathEnd("loop structure")
    o = loops[0][0]

    def inv(L):
        tloc, fwd = as_real(L.t), as_real(L.forward)
        tend = as_real(L.eng.read(L.st, Ptr(rp.obj, ("t",))))
        out = [("direction_is_that_of_the_completed_step", fwd == z3.If(S["dld"] > 0, 1, -1)),
               ("local_clock_not_beyond_end_of_step", (tend - tloc) * fwd >= 0),
               ("end_of_step_fixed", tend == S["tend"]),
               # until the first BS step has proposed a step size the sub-step is the completed step itself
               ("without_a_proposal_the_substep_is_the_whole_step",
                z3.Implies(as_real(L.eng.read(L.st, Ptr(rp.obj, ("ri_bs", "dt_proposed")))) == 0, tloc + as_real(L.dt) == tend))]
        h = L.at_head("t")
        if h is not None:
            out.append(("clock_advances_by_accepted_substeps_only", z3.Or(tloc == as_real(h), tloc == as_real(h) + as_real(L.dt))))
        return out
    spec = LoopSpec(inv)

    def loop(e, st, n, cond, inc, body):
        # entry contract: the sub-integration starts at the beginning of the step that was just completed
        tloc = as_real(e.local(st, "t"))
        S["tend"] = as_real(e.read(st, Ptr(rp.obj, ("t",))))
        S["dld"] = as_real(e.read(st, Ptr(rp.obj, ("dt_last_done",))))
        e.oblige(st, "integrator_part2.user_odes.completed_step_has_nonzero_length", S["dld"] != 0, "loop", n)
        e.oblige(st, "integrator_part2.user_odes.start_is_beginning_of_the_completed_step", tloc == S["tend"] - S["dld"], "loop", n)
        e.oblige(st, "integrator_part2.user_odes.first_substep_is_the_completed_step", as_real(e.local(st, "dt")) == S["dld"], "loop", n)
        return e.loop_invariant(st, n, cond, inc, body, False, spec, FN, o)
    v.loop(FN, o, invariant=loop, mode="custom")
    v.call(FN, rp)
    if "tend" in S:
        v.prove("n_body_clock_untouched_by_the_ode_part", r.t == S["tend"])
