"""C12 (shared contracts): the public frame change reb_simulation_move_to_com (tools.c) is one of the property's anchors
("public frame changes").  Its body contracts live in the C20 frames pack (x_i' = x_i - X, v_i' = v_i - V with X, V the
mass-weighted means accumulated by reb_particle_com_of_pair over the real particles, so that the centre of mass of the result
is the origin at rest; frame: masses, radii, hashes and everything but the shifted leaves unchanged) and are re-registered
here, so that a change to move_to_com is reported under C12 as well.  reb_simulation_move_to_hel has its own task in
C12_transformations (tools.reb_simulation_move_to_hel)."""
from engine.api import Pack, Task
from contracts import C20_frames as F

P = Pack("C12", F.P.files, "reb_simulation_move_to_com / reb_simulation_com: centre-of-mass frame (shared with C20)")
PACKS = [P]
P.assumptions += ["shared with C20: " + a for a in F.P.assumptions]
P.trusted += F.P.trusted
for t in F.P.tasks:
    if t.name.startswith("frames.move_to_com.real_particles") or t.name.startswith("frames.com"):
        P.tasks.append(Task(P, "frame_change." + t.name, t.fn, t.func, files=t.files or F.P.files, timeout=t.timeout, order=t.order, z3_ms=t.z3_ms, polyid_s=t.polyid_s))
