"""C10 / C01 (SEI): the shearing-sheet integrator caches sin/tan of OMEGA*dt in ri_sei and hands the cache BY VALUE to its
drift operator.  A step is the mirror image of its reverse only if both half-step operators of a step use the cache of the
CURRENT dt -- in particular in the step right after dt changed sign.  Contract on the real reb_integrator_sei_part1 /
part2 (reb_integrator_sei_init through its contract sei.init.contract of C01_order_more: fresh cache values, lastdt = dt;
operator_H012 as a recording primitive):

    every operator_H012 call of the step receives dt == r->dt and a cache with  lastdt == r->dt  whose sindt, tandt,
    sindtz, tandtz, OMEGA, OMEGAZ are the values r->ri_sei holds at that moment (after any re-initialisation)."""
import z3
from engine.api import Pack, Task
from engine.csym import as_real
from engine.mem import Ptr, StructObj

FILES = ["src/integrator_sei.c"]
CACHE = ("sindt", "tandt", "sindtz", "tandtz", "OMEGA", "OMEGAZ", "lastdt")


def make_task(fn):
    def task(v):
        eng = v.eng
        r, rp = v.struct_obj("struct reb_simulation", "r")
        dt = v.real("dt")
        r.dt, r.t = dt, v.real("t")
        r.N = 1
        parts = v.array("struct reb_particle", 1, "P")
        r.particles = parts.ptr
        for f in CACHE:
            eng.write(v.st, Ptr(rp.obj, ("ri_sei", f)), v.real("cache_" + f))
        if fn.endswith("part2"):
            # part2 runs after part1 of the same step: the cache is the one of the current dt
            v.assume(as_real(eng.read(v.st, Ptr(rp.obj, ("ri_sei", "lastdt")))) == dt)

        def init(e, st, args, n):
            for f in ("sindt", "tandt", "sindtz", "tandtz"):
                e.write(st, Ptr(rp.obj, ("ri_sei", f)), e.fresh("init_" + f, z3.RealSort()))
            e.write(st, Ptr(rp.obj, ("ri_sei", "lastdt")), as_real(e.read(st, Ptr(rp.obj, ("dt",)))))
        v.contract("reb_integrator_sei_init", init)
        calls = []

        def H012(e, st, args, n):
            calls.append(1)
            k = len(calls)
            e.oblige(st, "sei_cache.%s.H012_call%d.dt_is_current" % (fn, k), as_real(args[0]) == as_real(e.read(st, Ptr(rp.obj, ("dt",)))), "pre", n)
            c = args[1]
            ok = isinstance(c, StructObj)
            e.oblige(st, "sei_cache.%s.H012_call%d.cache_passed_by_value" % (fn, k), z3.BoolVal(ok), "pre", n)
            if not ok:
                return None
            for f in CACHE:
                cur = as_real(e.read(st, Ptr(rp.obj, ("ri_sei", f))))
                e.oblige(st, "sei_cache.%s.H012_call%d.cache_is_current.%s" % (fn, k, f), as_real(e._lazy_field(c, f, st)) == cur, "pre", n)
            e.oblige(st, "sei_cache.%s.H012_call%d.cache_belongs_to_current_dt" % (fn, k),
                     as_real(e._lazy_field(c, "lastdt", st)) == as_real(e.read(st, Ptr(rp.obj, ("dt",)))), "pre", n)
            e.havoc(st, {(parts.obj.id, None)}, "H012")
            return None
        v.contract("operator_H012", H012)
        v.contract("operator_phi1", lambda e, st, args, n: e.havoc(st, {(parts.obj.id, None)}, "phi1"))
        v.call(fn, rp)
        v.ground("%s.applies_the_drift_operator" % fn, len(calls) >= 1, "operator_H012 calls seen on the last path: %d" % len(calls))
    return task


def make(prop, why):
    P = Pack(prop, FILES, why)
    for fn in ("reb_integrator_sei_part1", "reb_integrator_sei_part2"):
        P.tasks.append(Task(P, "sei_cache." + fn, fn, make_task(fn), files=FILES))
    return P


PACKS = [make("C10", "SEI operators use the cache of the current dt (reversal after a sign change of dt)")]
