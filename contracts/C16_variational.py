"""C16 (force routine): reb_calculate_acceleration_var of src/gravity.c computes the derivative of the pair force.

Exact counterpart of "matches finite differences": every pair update of the variational force routine equals the
SYMBOLIC DERIVATIVE of the specification of the real pair force.  The specification of the real force (C02) is
    f(d, m_s) = -G m_s d / (|d|^2 + eps^2)^(3/2),   d = x_k - x_s     (acceleration of target k due to source s).
A one/two-parameter family of neighbouring real states
    x(a,b) = x + a dx1 + b dx2 + a b dx12 ,   m(a,b) = m + a dm1 + b dm2 + a b dm12
is inserted into f and differentiated with sympy IN THIS PACK (function `derive_specs`):
    first order   d/da   f |_0  = Df[dd1, dm1]
    second order  d2/dadb f |_0 = D2f[(dd1,dm1),(dd2,dm2)] + Df[dd12, dm12]
(dd = variation of the target minus variation of the source, dm = variation of the source mass).  Nothing on the
specification side is copied from gravity.c.

Technique: the accumulation rule (engine/accum.py, as in C02): body contract per pair (`.body.*`, polynomial identities
modulo the sqrt axiom), frame (`.frame.*`), iteration space of the nest (`.iterspace.*`) against the iteration space
SPECIFIED FOR THE REAL FORCE (C02 `is_source`: Src(k), gravity_ignore_terms, test particles), zeroing loop invariants,
memory safety (automatic `index.inbounds@...` obligations from the bookkeeping invariant index + N_real <= N).
"""
import z3
from fractions import Fraction
from engine.api import Pack
from engine import accum
from engine.csym import as_real, as_int

P = Pack("C16", ["src/gravity.c"], "variational equations: force routine")
PACKS = [P]
FN = "reb_calculate_acceleration_var"

P.assume("machine arithmetic treated as mathematical (doubles as reals): rounding and the order of summation not modelled")
P.assume("sqrt axiomatised per occurrence: sqrt(x)^2 = x and sqrt(x) >= 0; u^(-(2n+1)/2) in the differentiated "
         "specification is written 1/(u^n sqrt(u))")
P.assume("configuration precondition (as C02): 0 <= N_var <= N, N_active == -1 or 0 <= N_active <= N - N_var, particles "
         "has N elements, testparticle_type in {0,1}, gravity_ignore_terms in {0,1,2}; one variational configuration per "
         "task (N_var_config == 1: the outer loop over configurations is unrolled; configurations are independent because "
         "each writes only the accelerations of its own block, obligation `.targets_in_own_block`)")
P.assume("bookkeeping invariant established by reb_simulation_add_variation_* (proved in C16_bookkeeping): a full set has "
         "N_real <= index and index + N_real <= N; a test-particle set has N_real <= index < N and 0 <= testparticle < N_real; "
         "second order: the same for index_1st_order_a / index_1st_order_b")
P.assume("the specification is defined: |x_k - x_s|^2 != 0 for every specified pair (instantiated at the visited pair)")
P.assume("REB_GRAVITY_COMPENSATED: r->gravity_cs holds N_allocated_gravity_cs >= N elements (reb_calculate_acceleration, which "
         "every caller runs first, reallocates it to N elements)")
# softening is symbolic: since the fix the routine uses r^2 + softening^2 like reb_calculate_acceleration (finding first_order.softening)
P.trust("accumulation rule (DESIGN 3.3): from body contract, frame and iteration-space equality, accumulator_final = "
        "accumulator_initial + sum of the specified terms over the specified contribution set")

R, I = z3.RealSort(), z3.IntSort()
XYZ = ("x", "y", "z")
AXYZ = ("ax", "ay", "az")
POLY = ("polyid", "z3", "cvc5")
PAIR = ((),)


# ------------------------------------------------------------------------------------------------ specification (sympy)
_SPEC = {}


def derive_specs():
    """Differentiate the pair force with sympy.  Returns dict name -> (list of 3 sympy expressions, symbols dict).
    u^(-(2n+1)/2) is rewritten to 1/(U^n * rr) with the symbols U (= |d|^2 + eps^2) and rr (= sqrt(U))."""
    if _SPEC:
        return _SPEC
    import sympy as sp
    S = {n: sp.Symbol(n, real=True) for n in
         ("G", "m", "eps", "dx", "dy", "dz", "U", "rr",
          "e1x", "e1y", "e1z", "m1", "e2x", "e2y", "e2z", "m2", "e12x", "e12y", "e12z", "m12")}
    a, b = sp.symbols("a b", real=True)
    d = [S["dx"], S["dy"], S["dz"]]
    e1 = [S["e1x"], S["e1y"], S["e1z"]]
    e2 = [S["e2x"], S["e2y"], S["e2z"]]
    e12 = [S["e12x"], S["e12y"], S["e12z"]]
    u0 = d[0] ** 2 + d[1] ** 2 + d[2] ** 2 + S["eps"] ** 2

    def force(dv, mm):
        u = dv[0] ** 2 + dv[1] ** 2 + dv[2] ** 2 + S["eps"] ** 2
        return [-S["G"] * mm * c * u ** sp.Rational(-3, 2) for c in dv]

    def halfpowers(e):
        def is_hp(x):
            return x.is_Pow and x.exp.is_Rational and x.exp.q == 2 and sp.expand(x.base - u0) == 0

        def rw(x):
            p = x.exp.p          # odd, negative here
            n = (-p - 1) // 2
            assert p < 0 and -p == 2 * n + 1
            return 1 / (S["U"] ** n * S["rr"])
        out = e.replace(is_hp, rw)
        assert not any(x.is_Pow and not x.exp.is_Integer for x in sp.preorder_traversal(out)), out
        return out
    # first order
    dv = [d[i] + a * e1[i] for i in range(3)]
    f1 = [halfpowers(sp.diff(c, a).subs(a, 0)) for c in force(dv, S["m"] + a * S["m1"])]
    # second order (mixed derivative of the two-parameter family)
    dv = [d[i] + a * e1[i] + b * e2[i] + a * b * e12[i] for i in range(3)]
    mm = S["m"] + a * S["m1"] + b * S["m2"] + a * b * S["m12"]
    f2 = [halfpowers(sp.diff(c, a, b).subs({a: 0, b: 0})) for c in force(dv, mm)]
    _SPEC.update({"sym": S, "first": f1, "second": f2})
    return _SPEC


def to_z3(e, env):
    """sympy polynomial/rational expression -> z3 real term (exact: Rational coefficients, integer powers)"""
    import sympy as sp
    if e.is_Symbol:
        return env[e.name]
    if e.is_Rational:
        return z3.RealVal(str(Fraction(int(e.p), int(e.q))))
    if e.is_Add:
        ts = [to_z3(x, env) for x in e.args]
        r = ts[0]
        for t in ts[1:]:
            r = r + t
        return r
    if e.is_Mul:
        num, den = None, None
        for x in e.args:
            if x.is_Pow and x.exp.is_Integer and x.exp < 0:
                t = to_z3(x.base ** (-x.exp), env)
                den = t if den is None else den * t
            else:
                t = to_z3(x, env)
                num = t if num is None else num * t
        if num is None:
            num = z3.RealVal(1)
        return num if den is None else num / den
    if e.is_Pow and e.exp.is_Integer:
        n = int(e.exp)
        b = to_z3(e.base, env)
        if n < 0:
            return z3.RealVal(1) / to_z3(e.base ** (-n), env)
        r = b
        for _ in range(n - 1):
            r = r * b
        return r
    raise ValueError("to_z3: unsupported sympy node %r" % (e,))


# ------------------------------------------------------------------------------------------------ harness
class Cfg:
    pass


def setup(v, gravity, order, testparticle, soft_zero=False, tp_type=None):
    c = Cfg()
    c.v = v
    c.r, c.rp = v.struct_obj("struct reb_simulation", "r")
    c.N, c.N_var, c.N_active = v.int("N"), v.int("N_var"), v.int("N_active")
    c.tp, c.ign = (v.int("testparticle_type") if tp_type is None else z3.IntVal(tp_type)), v.int("gravity_ignore_terms")
    c.G, c.eps = v.real("G"), v.real("softening")
    c.parts = v.array("struct reb_particle", c.N, "P")
    r = c.r
    r.N, r.N_var, r.N_active = c.N, c.N_var, c.N_active
    r.testparticle_type, r.gravity_ignore_terms = c.tp, c.ign
    r.G, r.softening = c.G, c.eps
    r.particles = c.parts.ptr
    r.gravity = v.enumc(gravity)
    c.N_real = c.N - c.N_var
    c.N_act = z3.If(c.N_active == -1, c.N_real, c.N_active)
    v.assume(c.N >= 0, c.N_var >= 0, c.N_var <= c.N,
             z3.Or(c.N_active == -1, z3.And(0 <= c.N_active, c.N_active <= c.N - c.N_var)),
             z3.Or(c.tp == 0, c.tp == 1), 0 <= c.ign, c.ign <= 2)
    c.soft_zero = soft_zero
    if soft_zero:
        v.assume(c.eps == 0)
    # one variational configuration
    c.vc = v.array("struct reb_variational_configuration", 1, "VC", sym=False)
    r.N_var_config = 1
    r.var_config = c.vc.ptr
    it = c.vc.obj.items[0].fields
    c.idx = v.int("index")
    it["order"] = z3.IntVal(order)
    it["index"] = c.idx
    c.tpi = v.int("testparticle")
    it["testparticle"] = c.tpi
    blocks = [c.idx]
    if order == 2:
        c.ia, c.ib = v.int("index_1st_order_a"), v.int("index_1st_order_b")
        it["index_1st_order_a"], it["index_1st_order_b"] = c.ia, c.ib
        blocks += [c.ia, c.ib]
    if testparticle:
        v.assume(0 <= c.tpi, c.tpi < c.N_real)
        for b in blocks:
            v.assume(c.N_real <= b, b < c.N)
    else:
        v.assume(c.tpi < 0)
        for b in blocks:
            v.assume(c.N_real <= b, b + c.N_real <= c.N)
    if gravity == "REB_GRAVITY_COMPENSATED":
        ncs = v.int("N_allocated_gravity_cs")
        c.cs = v.array("struct reb_vec3d", ncs, "CS")
        r.N_allocated_gravity_cs = ncs
        r.gravity_cs = c.cs.ptr
        v.assume(ncs >= c.N)
    c.X = {f: c.parts.array(f) for f in XYZ + ("m",)}
    return c


def spec_sqrt(eng, st, x):
    x = z3.simplify(x)
    y = eng.uf("sqrt", R, R)(x)
    st.assume(y * y == x)
    st.assume(y >= 0)
    return y


def sep2(c, k, s, orient=None):
    d = [z3.Select(c.X[f], k) - z3.Select(c.X[f], s) for f in XYZ]
    # |d|^2 may be written with a fixed orientation of the pair (|d|^2 = |-d|^2, orient = (a, b): x_a - x_b), so that
    # both directions of a pair share one sqrt symbol
    a, b = orient or (k, s)
    d_ = [z3.Select(c.X[f], a) - z3.Select(c.X[f], b) for f in XYZ]
    if c.soft_zero:          # precondition softening == 0: the specification's eps^2 is literally 0
        return d, d_[0] * d_[0] + d_[1] * d_[1] + d_[2] * d_[2]
    return d, d_[0] * d_[0] + d_[1] * d_[1] + d_[2] * d_[2] + c.eps * c.eps


def is_source(c, k, s, ign=None):
    """C02's specification of the contribution set of the real force (single box): source s acts on target k"""
    ign = c.ign if ign is None else ign
    active = lambda a: z3.And(0 <= a, a < c.N_act)
    test = lambda a: z3.And(c.N_act <= a, a < c.N_real)
    real = lambda a: z3.And(0 <= a, a < c.N_real)
    src = z3.Or(active(s), z3.And(test(s), c.tp == 1, active(k)))
    ign1 = z3.Implies(ign == 1, z3.Not(z3.Or(z3.And(k == 0, s == 1), z3.And(k == 1, s == 0))))
    ign2 = z3.Implies(ign == 2, z3.And(k != 0, s != 0))
    return z3.And(real(k), real(s), k != s, src, ign1, ign2)


def var_of(c, base, k, tp):
    """variational quantities (position 3-vector, mass) of real particle k in the block starting at `base`;
    a test-particle block holds the single variational particle of the test particle: every other particle (and every
    mass) has variation zero"""
    if tp is None:
        return [z3.Select(c.X[f], base + k) for f in XYZ], z3.Select(c.X["m"], base + k)
    if k.eq(tp):
        return [z3.Select(c.X[f], base) for f in XYZ], z3.RealVal(0)
    return [z3.RealVal(0)] * 3, z3.RealVal(0)      # k != tp on the path: obligation `.source_is_not_the_varied_particle`


def spec_first(c, st, k, s, tp=None, orient=None):
    """Df(x_k - x_s, m_s)[dx_k - dx_s, dm_s]: variation of the acceleration of k due to s (3 z3 terms)"""
    sp_ = derive_specs()
    d, r2 = sep2(c, k, s, orient)
    rr = spec_sqrt(c.v.eng, st, r2)
    vk, _mk = var_of(c, c.idx, k, tp)
    vs, ms = var_of(c, c.idx, s, tp)
    env = {"G": c.G, "m": z3.Select(c.X["m"], s), "eps": c.eps, "dx": d[0], "dy": d[1], "dz": d[2], "U": r2, "rr": rr,
           "e1x": vk[0] - vs[0], "e1y": vk[1] - vs[1], "e1z": vk[2] - vs[2], "m1": ms}
    return [to_z3(e, env) for e in sp_["first"]]


def spec_second(c, st, k, s, tp=None, orient=None):
    """D2f[(dd1,dm1),(dd2,dm2)] + Df[dd12, dm12] with the first-order sets a, b and the second-order set `index`"""
    sp_ = derive_specs()
    d, r2 = sep2(c, k, s, orient)
    rr = spec_sqrt(c.v.eng, st, r2)
    env = {"G": c.G, "m": z3.Select(c.X["m"], s), "eps": c.eps, "dx": d[0], "dy": d[1], "dz": d[2], "U": r2, "rr": rr}
    for tag, base in (("1", c.ia), ("2", c.ib), ("12", c.idx)):
        vk, _mk = var_of(c, base, k, tp)
        vs, ms = var_of(c, base, s, tp)
        for n, f in enumerate(XYZ):
            env["e%s%s" % (tag, f)] = vk[n] - vs[n]
        env["m" + tag] = ms
    return [to_z3(e, env) for e in sp_["second"]]


def var_shape(v):
    """loops of `case REB_GRAVITY_BASIC` of reb_calculate_acceleration_var identified by structure"""
    top = accum.loops_under(v.eng, FN, v.eng.enum("REB_GRAVITY_BASIC"))
    want = ((), PAIR, PAIR, (), (), PAIR, ())
    ok = len(top) == 1 and top[0].shape() == want
    v.ground("shape.var_basic", ok, "expected: loop over configurations around [zero, active nest, test nest, test-particle "
             "loop | zero, pair nest, test-particle loop]; got %s" % [t.shape() for t in top])
    if not ok:
        raise accum.Unsupported("reb_calculate_acceleration_var: unexpected loop structure")
    ch = top[0].children
    two = lambda l: [l.ordinal, l.children[0].ordinal]
    return {"v": top[0].ordinal, "zero1": ch[0].ordinal, "act1": two(ch[1]), "tst1": two(ch[2]), "tp1": ch[3].ordinal,
            "zero2": ch[4].ordinal, "pair2": two(ch[5]), "tp2": ch[6].ordinal}


def cs_shape(v):
    top = accum.loops_under(v.eng, FN, v.eng.enum("REB_GRAVITY_COMPENSATED"))
    ok = len(top) == 1 and top[0].shape() == ()
    v.ground("shape.var_compensated", ok, "expected one loop (clearing gravity_cs of the variational particles) before the "
             "fall-through into REB_GRAVITY_BASIC; got %s" % [t.shape() for t in top])
    if not ok:
        raise accum.Unsupported("reb_calculate_acceleration_var: unexpected COMPENSATED prologue")
    return top[0].ordinal


def zero_block_invariant(c, var, count):
    """for (i=0;i<N_real;i++) particles_var[i].a = 0: block elements below i are zero, nothing outside the block written"""
    k = z3.Int("kz")
    A0 = {f: c.parts.array(f) for f in AXYZ}

    def inv(L):
        i = L[var]
        cur = {f: c.parts.array(f) for f in AXYZ}
        inblock = z3.And(c.idx <= k, k < c.idx + i)
        return [("range", z3.And(0 <= i, i <= z3.If(count >= 0, count, 0))),
                ("zeroed", z3.ForAll([k], z3.Implies(inblock, z3.And(*[z3.Select(cur[f], k) == 0 for f in AXYZ])))),
                ("outside_block_untouched", z3.ForAll([k], z3.Implies(z3.Not(inblock), z3.And(*[z3.Select(cur[f], k) == z3.Select(A0[f], k) for f in AXYZ]))))]
    return inv


def prove_zeroed(c, st, name, lo, hi):
    v = c.v
    k = v.eng.fresh("kzero", I)
    for f in AXYZ:
        v.eng.oblige(st, "%s.%s.%s" % (v.task.name, name, f), z3.Select(c.parts.array(f), k) == 0, "post",
                     extra_hyps=[lo <= k, k < hi])


def frozen_unchanged(v, c):
    v.prove("frame.positions_velocities_masses_untouched",
            z3.And(*[c.parts.array(f) == c.X[f] for f in XYZ + ("m",)]))


def pair_pre(c):
    def pre(vis):
        i, j = vis.idx["i"], vis.idx["j"]
        _d, r2 = sep2(c, i, j)
        vis.state.assume(r2 != 0)
    return pre


def pair_visit(c, A, spec, j_when=None, light=False):
    """body contract of a pair nest: block element i gains spec(i<-j), block element j gains spec(j<-i) (when j_when)"""
    def visit(vis):
        v = c.v
        if vis.flow == accum.Flow.CONTINUE:
            for key in A.accs:
                vis.unchanged(key, "skipped.unchanged")
            return
        i, j = vis.idx["i"], vis.idx["j"]
        if light:                  # iteration space only (the body contract is proved by the sibling task)
            vis.contrib((i, j))
            vis.contrib((j, i), when=True if j_when is None else j_when)
            return
        ti, tj = c.idx + i, c.idx + j
        st = vis.state
        keys = [A.key(c.parts, f) for f in AXYZ]
        fi = spec(c, st, i, j)
        fj = spec(c, st, j, i, orient=(i, j))
        for f, key, si in zip(XYZ, keys, fi):
            vis.prove("body.i." + f, vis.delta(key, ti) == si, order=POLY)
        cases = [((), True)] if j_when is None else [((j_when,), True), ((z3.Not(j_when),), False)]
        for hyp, on in cases:
            tag = "" if j_when is None else (".on" if on else ".off")
            for f, key, sj in zip(XYZ, keys, fj):
                vis.prove("body.j%s.%s" % (tag, f), vis.delta(key, tj, hyp) == (sj if on else 0), assuming=hyp, order=POLY)
        k = v.eng.fresh("kf", I)
        for f, key in zip(XYZ, keys):
            vis.prove("frame.other_elements." + f, z3.Select(vis.post[key], k) == z3.Select(vis.pre[key], k),
                      assuming=(k != ti, k != tj))
        vis.prove("targets_in_own_block", z3.And(c.idx <= ti, ti < c.idx + c.N_real, c.idx <= tj, tj < c.idx + c.N_real))
        vis.contrib((i, j))
        vis.contrib((j, i), when=True if j_when is None else j_when)
    return visit


def exact_eval(t, assign):
    """exact value (Fraction) of a real z3 term: `assign` gives values for some leaves, every other real leaf (select,
    constant) gets a fixed small rational; sqrt applications are evaluated exactly (argument must be a rational square)"""
    import math
    assign = dict((k.get_id(), (k, val)) for k, val in assign.items())
    leaves, sq = {}, []

    def walk(x):
        if x.get_id() in assign or x.get_id() in leaves:
            return
        if z3.is_app(x) and x.decl().name() == "m_sqrt":
            sq.append(x)
            walk(x.arg(0))
            return
        if z3.is_rational_value(x) or z3.is_int_value(x):
            return
        k = x.decl().kind() if z3.is_app(x) else None
        if k in (z3.Z3_OP_ADD, z3.Z3_OP_SUB, z3.Z3_OP_MUL, z3.Z3_OP_DIV, z3.Z3_OP_UMINUS, z3.Z3_OP_TO_REAL, z3.Z3_OP_POWER):
            for ch in x.children():
                walk(ch)
            return
        leaves[x.get_id()] = x
    walk(t)
    pairs = [kv for kv in assign.values()]
    for n, x in enumerate(sorted(leaves.values(), key=lambda y: y.sexpr())):
        pairs.append((x, z3.RealVal(Fraction(n + 2, n + 5)) if z3.is_real(x) else z3.IntVal(n + 1)))
    cur = z3.simplify(z3.substitute(t, *pairs))
    for _ in range(4):
        todo = []

        def find(x):
            if z3.is_app(x) and x.decl().name() == "m_sqrt":
                a = z3.simplify(x.arg(0))
                if z3.is_rational_value(a):
                    fr = Fraction(a.numerator_as_long(), a.denominator_as_long())
                    rn, rd = math.isqrt(fr.numerator), math.isqrt(fr.denominator)
                    if rn * rn == fr.numerator and rd * rd == fr.denominator:
                        todo.append((x, z3.RealVal(Fraction(rn, rd))))
                return
            for ch in x.children():
                find(ch)
        find(cur)
        if not todo:
            break
        cur = z3.simplify(z3.substitute(cur, *todo))
    if z3.is_rational_value(cur):
        return Fraction(cur.numerator_as_long(), cur.denominator_as_long())
    return None


def unreachable(v, ordinals):
    for o in ordinals:
        v.loop(FN, o, invariant=lambda L: [("unreachable", z3.BoolVal(False))])


def agree_precondition(c):
    """the iteration spaces of the first-order nests and of the real-force nests agree unless gravity_ignore_terms == 1
    and exactly one particle is active while a second real particle exists (see finding first_order.iterspace_unconditional)"""
    return z3.Not(z3.And(c.ign == 1, c.N_act == 1, c.N_real >= 2))


# ------------------------------------------------------------------------------------------------ first order, full set
P.assume("first order, full set: the iteration space equals the one specified for the real force under the precondition "
         "NOT(gravity_ignore_terms == 1 and N_active == 1 and N_real >= 2); without it see finding "
         "first_order.iterspace_unconditional")


def first_order_full(gravity, restrict=True, name=None):
    @P.task(name or "first_order.full.%s" % gravity[len("REB_GRAVITY_"):].lower(), fn=FN, timeout=300)
    def _(v):
        c = setup(v, gravity, 1, False)
        if restrict:
            v.assume(agree_precondition(c))
        sh = var_shape(v)
        A = accum.Accum(v, FN, [(c.parts, f) for f in AXYZ])
        if gravity == "REB_GRAVITY_COMPENSATED":
            k = z3.Int("kc")
            CS0 = {f: c.cs.array(f) for f in XYZ}

            def csinv(L):
                i = L.i
                cur = {f: c.cs.array(f) for f in XYZ}
                inr = z3.And(c.N_real <= k, k < i)
                return [("range", z3.And(c.N_real <= i, i <= z3.If(c.N >= c.N_real, c.N, c.N_real))),
                        ("cleared", z3.ForAll([k], z3.Implies(inr, z3.And(*[z3.Select(cur[f], k) == 0 for f in XYZ])))),
                        ("real_part_untouched", z3.ForAll([k], z3.Implies(z3.Not(inr), z3.And(*[z3.Select(cur[f], k) == z3.Select(CS0[f], k) for f in XYZ]))))]
            v.loop(FN, cs_shape(v), invariant=csinv, variant=lambda L: c.N - L.i)
        v.loop(FN, sh["zero1"], invariant=zero_block_invariant(c, "i", c.N_real), variant=lambda L: c.N_real - L.i)
        light = not restrict
        A.nest("active", sh["act1"], pair_visit(c, A, spec_first, light=light), pre=pair_pre(c),
               entry=None if light else (lambda st: prove_zeroed(c, st, "zeroed", c.idx, c.idx + c.N_real)))
        A.nest("test", sh["tst1"], pair_visit(c, A, spec_first, j_when=(c.tp == 1), light=light), pre=pair_pre(c))
        unreachable(v, [sh["tp1"], sh["zero2"], sh["tp2"]] + sh["pair2"])
        v.call(FN, c.rp)
        frozen_unchanged(v, c)
        k, s = z3.Ints("k s")
        A.iterspace("iterspace", (k, s), is_source(c, k, s))
    return _


first_order_full("REB_GRAVITY_BASIC")
first_order_full("REB_GRAVITY_COMPENSATED")


# ------------------------------------------------------------------------------------------------ first order, test particle
def single_visit(c, A, spec):
    """body of the test-particle loops: the single variational particle (block element 0) gains the derivative of the
    force of source j on the varied test particle i = vc.testparticle; masses are not varied"""
    def visit(vis):
        v = c.v
        if vis.flow == accum.Flow.CONTINUE:
            for key in A.accs:
                vis.unchanged(key, "skipped.unchanged")
            return
        j = vis.idx["j"]
        st = vis.state
        keys = [A.key(c.parts, f) for f in AXYZ]
        vis.prove("source_is_not_the_varied_particle", j != c.tpi)
        fi = spec(c, st, c.tpi, j, tp=c.tpi)
        for f, key, si in zip(XYZ, keys, fi):
            vis.prove("body." + f, vis.delta(key, c.idx) == si, order=POLY)
        k = v.eng.fresh("kf", I)
        for f, key in zip(XYZ, keys):
            vis.prove("frame.other_elements." + f, z3.Select(vis.post[key], k) == z3.Select(vis.pre[key], k),
                      assuming=(k != c.idx,))
        vis.contrib((j,))
    return visit


def single_pre(c):
    def pre(vis):
        _d, r2 = sep2(c, c.tpi, vis.idx["j"])
        vis.state.assume(z3.Implies(c.tpi != vis.idx["j"], r2 != 0))
    return pre


P.assume("test-particle sets: the varied particle vc.testparticle is a test particle of type 0 for the purpose of the "
         "variation: it feels every ACTIVE particle and nothing feels it (the code comment says so); the specified source "
         "set is therefore {s active, s != i} minus the gravity_ignore_terms pairs.  The code sums over every REAL "
         "particle j < N_real: the spaces agree when all real particles other than i are active (precondition "
         "`tp_precondition`: N_active == N_real, or N_active == N_real - 1 and i is the last real particle)")


def tp_precondition(c):
    """every real particle other than the varied test particle is active"""
    return z3.Or(c.N_act == c.N_real, z3.And(c.N_act == c.N_real - 1, c.tpi == c.N_real - 1))


def first_order_tp(gravity):
    @P.task("first_order.testparticle.%s" % gravity[len("REB_GRAVITY_"):].lower(), fn=FN, timeout=300)
    def _(v):
        c = setup(v, gravity, 1, True)
        v.assume(tp_precondition(c))
        sh = var_shape(v)
        A = accum.Accum(v, FN, [(c.parts, f) for f in AXYZ])
        if gravity == "REB_GRAVITY_COMPENSATED":
            v.loop(FN, cs_shape(v), invariant=lambda L: [("range", z3.And(c.N_real <= L.i, L.i <= z3.If(c.N >= c.N_real, c.N, c.N_real)))],
                   variant=lambda L: c.N - L.i)
        unreachable(v, [sh["zero1"], sh["zero2"], sh["tp2"]] + sh["act1"] + sh["tst1"] + sh["pair2"])

        def entry(st):
            for f in AXYZ:
                v.eng.oblige(st, "%s.zeroed.%s" % (v.task.name, f), z3.Select(c.parts.array(f), c.idx) == 0, "post")
        A.nest("sources", [sh["tp1"]], single_visit(c, A, spec_first), pre=single_pre(c), entry=entry)
        v.call(FN, c.rp)
        frozen_unchanged(v, c)
        s = z3.Int("s")
        A.iterspace("iterspace", (s,), z3.And(is_source(c, c.tpi, s), True))
    return _


first_order_tp("REB_GRAVITY_BASIC")
first_order_tp("REB_GRAVITY_COMPENSATED")


# ------------------------------------------------------------------------------------------------ second order
P.assume("second order: precondition gravity_ignore_terms == 0 (what IAS15, BS, leapfrog, JANUS, SEI establish; WHFast "
         "rejects second-order sets in reb_integrator_whfast_init) and testparticle_type == 0 (the routine raises an error "
         "otherwise).  The code has the Wisdom-Holman term skipping commented out ('TODO'): with gravity_ignore_terms != 0 "
         "its pair set {i<j<N_real} is not the set of the real force; and it pairs ALL real particles, so the spaces agree "
         "only when every real particle is active (N_active == -1 or N_active == N_real): both stated as preconditions")


def second_order_full(gravity):
    @P.task("second_order.full.%s" % gravity[len("REB_GRAVITY_"):].lower(), fn=FN, timeout=600, polyid_s=200)
    def _(v):
        c = setup(v, gravity, 2, False, tp_type=0)
        v.assume(c.ign == 0, c.N_act == c.N_real)
        sh = var_shape(v)
        A = accum.Accum(v, FN, [(c.parts, f) for f in AXYZ])
        if gravity == "REB_GRAVITY_COMPENSATED":
            v.loop(FN, cs_shape(v), invariant=lambda L: [("range", z3.And(c.N_real <= L.i, L.i <= z3.If(c.N >= c.N_real, c.N, c.N_real)))],
                   variant=lambda L: c.N - L.i)
        v.loop(FN, sh["zero2"], invariant=zero_block_invariant(c, "i", c.N_real), variant=lambda L: c.N_real - L.i)
        unreachable(v, [sh["zero1"], sh["tp1"], sh["tp2"]] + sh["act1"] + sh["tst1"])
        A.nest("pairs", sh["pair2"], pair_visit(c, A, spec_second), pre=pair_pre(c),
               entry=lambda st: prove_zeroed(c, st, "zeroed", c.idx, c.idx + c.N_real))
        v.call(FN, c.rp)
        frozen_unchanged(v, c)
        k, s = z3.Ints("k s")
        A.iterspace("iterspace", (k, s), is_source(c, k, s))
    return _


def second_order_tp(gravity):
    @P.task("second_order.testparticle.%s" % gravity[len("REB_GRAVITY_"):].lower(), fn=FN, timeout=600, polyid_s=200)
    def _(v):
        c = setup(v, gravity, 2, True, tp_type=0)
        v.assume(c.ign == 0, tp_precondition(c))
        sh = var_shape(v)
        A = accum.Accum(v, FN, [(c.parts, f) for f in AXYZ])
        if gravity == "REB_GRAVITY_COMPENSATED":
            v.loop(FN, cs_shape(v), invariant=lambda L: [("range", z3.And(c.N_real <= L.i, L.i <= z3.If(c.N >= c.N_real, c.N, c.N_real)))],
                   variant=lambda L: c.N - L.i)
        unreachable(v, [sh["zero1"], sh["zero2"], sh["tp1"]] + sh["act1"] + sh["tst1"] + sh["pair2"])

        def entry(st):
            for f in AXYZ:
                v.eng.oblige(st, "%s.zeroed.%s" % (v.task.name, f), z3.Select(c.parts.array(f), c.idx) == 0, "post")
        A.nest("sources", [sh["tp2"]], single_visit(c, A, spec_second), pre=single_pre(c), entry=entry)
        v.call(FN, c.rp)
        frozen_unchanged(v, c)
        s = z3.Int("s")
        A.iterspace("iterspace", (s,), is_source(c, c.tpi, s))
    return _


second_order_full("REB_GRAVITY_BASIC")
second_order_tp("REB_GRAVITY_BASIC")
second_order_full("REB_GRAVITY_COMPENSATED")


# ------------------------------------------------------------------------------------------------ findings (expected to FAIL)
P.assume("FINDING first_order.iterspace_unconditional (kept, fails on the unchanged tree, natively reproduced): without the "
         "precondition the first-order test-particle nest visits the pair (1,0) when gravity_ignore_terms == 1 and N_active == 1: "
         "the real force starts that nest at MAX(N_active, starti) = 2 (the pair {0,1} belongs to WHFast's Kepler step in Jacobi "
         "coordinates), the variational routine starts it at N_active = 1, so the pair {0,1} enters the tangent map twice.  "
         "Native (tools/repro/C16_whfast_nactive1_variational_double_counts_pair01.py): star + 2 planets, N_active = 1, WHFast, vary(1,'a'), t = 3: d x_1/da = "
         "-0.5489 by central differences (IAS15's variational particle agrees to 7e-10), WHFast's variational particle gives -39.75")
first_order_full("REB_GRAVITY_BASIC", restrict=False, name="first_order.iterspace_unconditional")


@P.task("first_order.softening", fn=FN, timeout=300)
def _(v):
    """FINDING (genuine, natively reproduced, repaired by a fix: commit): the derivative of the SOFTENED pair force (the
    force the real routine uses: r^2 = |d|^2 + softening^2) was not what the routine added: it never read r->softening.
    All first/second-order tasks now carry a symbolic softening; this task keeps the finding as an INSTANCE of
    the body contract at the separation d = (2,3,6), softening = 24 (both square roots rational: 7 and 25), everything
    else symbolic.  Native (tools/repro/C16_variational_force_ignores_softening.py): m=1 + m=1e-3 at x=1, vy=1, softening 0.5, IAS15 to t=2: d x_1/d x_1(0) = 1.9312 by central
    differences, variational particle 3.2861 (softening 0: 2.7931 both)."""
    c = setup(v, "REB_GRAVITY_BASIC", 1, False, soft_zero=False)
    v.assume(agree_precondition(c))
    sh = var_shape(v)
    A = accum.Accum(v, FN, [(c.parts, f) for f in AXYZ])
    v.loop(FN, sh["zero1"], invariant=zero_block_invariant(c, "i", c.N_real), variant=lambda L: c.N_real - L.i)

    def visit(vis):
        if vis.flow == accum.Flow.CONTINUE:
            return
        i, j = vis.idx["i"], vis.idx["j"]
        fi = spec_first(c, vis.state, i, j)
        key = A.key(c.parts, "ax")
        code = vis.delta(key, c.idx + i)
        pos = {}
        for f, a in zip(XYZ, (2, 3, 6)):
            pos[z3.Select(c.X[f], i)] = z3.RealVal(a)
            pos[z3.Select(c.X[f], j)] = z3.RealVal(0)
        pos[c.eps] = z3.RealVal(24)
        got, want = exact_eval(code, pos), exact_eval(fi[0], pos)
        c.v.ground(A.relname(vis, "body.i.x.softened"), got is not None and got == want,
                   "exact rational evaluation at d=(2,3,6), softening=24 and the sample variations: code adds %s, the "
                   "derivative of the softened pair force is %s" % (got, want))
        pos[c.eps] = z3.RealVal(0)
        got0, want0 = exact_eval(code, pos), exact_eval(fi[0], pos)
        c.v.ground(A.relname(vis, "body.i.x.same_instance_without_softening_agrees"), got0 is not None and got0 == want0,
                   "softening=0 at the same point: code %s, specification %s" % (got0, want0))
        vis.contrib((i, j))

    def pre(vis):
        i, j = vis.idx["i"], vis.idx["j"]
        for f, a in zip(XYZ, (2, 3, 6)):
            vis.state.assume(z3.Select(c.X[f], i) == a)
            vis.state.assume(z3.Select(c.X[f], j) == 0)

    def pre_t(vis):
        i, j = vis.idx["i"], vis.idx["j"]
        d, _ = sep2(c, i, j)
        vis.state.assume(d[0] * d[0] + d[1] * d[1] + d[2] * d[2] != 0)
    A.nest("active", sh["act1"], visit, pre=pre)
    A.nest("test", sh["tst1"], lambda vis: None, pre=pre_t)
    unreachable(v, [sh["tp1"], sh["zero2"], sh["tp2"]] + sh["pair2"])
    v.call(FN, c.rp)


P.not_decided += [
    "REB_GRAVITY_TREE / JACOBI / MERCURIUS / TRACE: reb_calculate_acceleration_var has no case for them (default: reb_exit "
    "'Variational gravity calculation not yet implemented'); nothing to verify",
    "several variational configurations in one call: each block is proved for one configuration and to write only the "
    "accelerations of its own block (`.targets_in_own_block`, `.frame.other_elements`, zero-loop `outside_block_untouched`); "
    "the sequential composition over N_var_config configurations is not machine-checked (second-order sets read positions "
    "and masses of their first-order sets, which no configuration writes: `frame.positions_velocities_masses_untouched`)",
    "test-particle sets in a simulation that contains further (inactive) test particles: the code also sums over inactive "
    "sources j; these terms vanish iff m_j = 0 (outside the precondition `all others active`)",
    "second order with gravity_ignore_terms != 0 or with inactive real particles (N_active < N_real): the code pairs all real "
    "particles and has the Wisdom-Holman skipping commented out, so its pair set differs from the real force's; scoped out by "
    "the precondition (gravity_ignore_terms == 0, all real particles active) -- no integrator that accepts second-order sets "
    "sets gravity_ignore_terms != 0 except EOS (ignore = 2), which does not check the order: not examined",
    "REB_GRAVITY_COMPENSATED second-order test-particle set (same body as BASIC: covered by second_order.testparticle.basic "
    "plus the COMPENSATED prologue proved in the other compensated tasks)",
]
