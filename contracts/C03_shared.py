"""C03 (shared lemma): with safe_mode = 0 the Kepler propagation of a step is split over part1, part2 and synchronize
(half drifts merged between steps).  The body is on its exact Kepler orbit at an output only if the drifts the three
functions apply add up to the elapsed time, with every drift length a fixed multiple of the CURRENT dt.  The word-level
contracts of C09 (safe == unsafe + synchronize, primitive step lengths are multiples of dt, keep_unsynchronized) for WHFast
in all four coordinate systems are re-registered here."""
import re
from engine.api import Pack, Task
from contracts import C09_sync as S

P = Pack("C03", S.P.files, "Kepler drifts of part1 / part2 / synchronize add up (shared with C09)")
PACKS = [P]
P.assumptions += ["shared with C09: " + a for a in S.P.assumptions]
P.trusted += S.P.trusted
for t in S.P.tasks:
    if re.match(r"whfast\.[a-z]+\.(default|composition)\.c0\.c2_0\.", t.name):
        P.tasks.append(Task(P, "drifts_add_up." + t.name, t.fn, t.func, files=t.files or S.P.files, timeout=t.timeout))


# A single body orbiting a central mass stays on its exact Kepler orbit only if the interaction kick of the Wisdom-Holman
# splitting adds NOTHING for the star-body pair the Kepler step has already taken care of: the force routines must skip exactly
# the pairs the integrator's pair filter (gravity_ignore_terms) names -- for active bodies and for test particles, in the basic
# and in the compensated routine -- and every part1 must set that filter.  The pair-set contracts of C02 are re-registered here.
from contracts import C02_gravity as G2
from contracts import C02_modes as M2
P2 = Pack("C03", sorted(set(G2.P.files) | set(M2.P.files)), "the kick skips exactly the pair the Kepler step solves (shared with C02)")
PACKS.append(P2)
P2.assumptions += ["shared with C02: " + a for a in list(G2.P.assumptions) + list(M2.P.assumptions)]
P2.trusted += G2.P.trusted
for t in G2.P.tasks:
    if t.name in ("basic.onebox", "compensated"):
        P2.tasks.append(Task(P2, "kick_pair_filter." + t.name, t.fn, t.func, files=G2.P.files, timeout=t.timeout, order=t.order, z3_ms=t.z3_ms, polyid_s=t.polyid_s))
for t in M2.P.tasks:
    P2.tasks.append(Task(P2, "kick_pair_filter." + t.name, t.fn, t.func, files=t.files or M2.P.files, timeout=t.timeout))
