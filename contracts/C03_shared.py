"""C03 (shared lemma): with safe_mode = 0 the Kepler propagation of a step is split over part1, part2 and synchronize
(half drifts merged between steps).  The body is on its exact Kepler orbit at an output only if the drifts the three
functions apply add up to the elapsed time, with every drift length a fixed multiple of the CURRENT dt.  The word-level
contracts of C09 (safe == unsafe + synchronize, primitive step lengths are multiples of dt, keep_unsynchronized) for WHFast
in all four coordinate systems are re-registered here."""
import re
from engine.api import Pack, Task
from contracts import C09_sync as S

P = Pack("C03", S.P.files, "Kepler drifts of part1 / part2 / synchronize add up (shared with C09)")
PACKS = [P]
P.assumptions += ["shared with C09: " + a for a in S.P.assumptions]
P.trusted += S.P.trusted
for t in S.P.tasks:
    if re.match(r"whfast\.[a-z]+\.(default|composition)\.c0\.c2_0\.", t.name):
        P.tasks.append(Task(P, "drifts_add_up." + t.name, t.fn, t.func, files=t.files or S.P.files, timeout=t.timeout))
