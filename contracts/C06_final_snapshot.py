"""C06 (a snapshot equals the live state it was taken from): reb_simulation_integrate takes a last snapshot before it
returns (the archive is registered with an interval / step / walltime cadence; the heartbeat decides whether one is due).
That snapshot is what a user reloads to continue the run; it must be taken from the state the call RETURNS, i.e. after
the final synchronisation and after the step length that was shortened for an exact finish has been restored -- a
snapshot taken earlier stores the shortened dt, and the reloaded run continues with a step that is orders of magnitude
too small (or, unsynchronised, with a pending half step).

Contract on the real reb_simulation_integrate_raw, archive registered (simulationarchive_filename != NULL), any
exact_finish_time, the general (adaptive) step contract of C08 for reb_simulation_step, reb_check_exit inlined (real code):

    the last archive heartbeat of the call sees  t, dt, dt_last_done, status  equal to the values at return, and it comes
    after the final reb_simulation_synchronize; every archive heartbeat inside the loop comes directly after a completed step
    (it sees the t the step left)."""
import z3
from engine.api import Pack
from engine.mem import Ptr
from contracts import C08_integrate as I

P = Pack("C06", I.P.files, "the final snapshot of integrate() is taken from the state that is returned")
PACKS = [P]
P.assumptions += ["shared with C08: " + a for a in I.P.assumptions]
P.assume("final-snapshot task: reb_simulationarchive_heartbeat reads the simulation and writes only the archive schedule "
         "(simulationarchive_next / next_step / auto_walltime: C06 cadence tasks); reb_simulation_synchronize does not write "
         "t, dt, dt_last_done, status (C08 stepcontract.frame)")

WATCH = ("t", "dt", "dt_last_done", "status", "steps_done")


def gen(sg):
    @P.task("integrate.final_snapshot_is_the_returned_state.%s" % ("forward" if sg > 0 else "backward"), fn=I.RAW)
    def _(v):
        s = I.integrate_setup(v, "adaptive", sg)
        r, rp = s.r, s.rp
        fname = v.array("char", None, "archive_filename")
        r.simulationarchive_filename = fname
        eng = v.eng

        def archive(e, st, args, n):
            st.trace = st.trace + [("archive",) + tuple(e.read(st, Ptr(rp.obj, (f,))) for f in WATCH)]
            return None
        v.contract("reb_simulationarchive_heartbeat", archive)

        def sync(e, st, args, n):
            st.trace = st.trace + [("synchronize",)]
            return None
        v.contract("reb_simulation_synchronize", sync)

        def inv(L):
            st, t, dt, k = I.common_invariants(s, L)
            return [("steps", k >= 0)]
        v.loop(I.RAW, 0, invariant=inv)
        v.call(I.INTEGRATE, rp, s.tmax)
        tr = [t for t in v.st.trace if t[0] in ("archive", "synchronize")]
        v.ground("a_final_snapshot_is_offered_to_the_archive", bool(tr) and tr[-1][0] == "archive",
                 "calls on this path: %s" % [t[0] for t in tr])
        if not tr or tr[-1][0] != "archive":
            return
        last = tr[-1]
        for f, val in zip(WATCH, last[1:]):
            v.prove("final_snapshot.%s_is_the_returned_value" % f, val == getattr(r, f))
        k = len(tr) - 1
        v.ground("final_snapshot.after_the_final_synchronisation", k >= 1 and tr[k - 1][0] == "synchronize",
                 "calls on this path: %s" % [t[0] for t in tr])


for _sg in (1, -1):
    gen(_sg)
