"""C09 (Python layer): Simulationarchive.getSimulation() synchronises the snapshot it returns.  With keep_unsynchronized = 1 (the
default) the synchronisation must be invisible to the continuation (bit-wise restart); the method switches keep_unsynchronized
off exactly when the integrator that produced the snapshot runs in safe mode (then there is nothing to keep).

Contract, decided by EXHAUSTIVE evaluation of the real condition expression(s) taken from the AST of
rebound/simulationarchive.py over the whole finite decision domain (integrator name x safe_mode flag of WHFast, SABA,
MERCURIUS):   condition  <=>  sim.integrator in {whfast, saba, mercurius} and that integrator's safe_mode == 1."""
import ast
import itertools
import os
from engine.api import Pack

P = Pack("C09", [], "getSimulation keeps a snapshot unsynchronised iff its own integrator is in unsafe mode")
PACKS = [P]
P.trust("Python expression evaluation: the condition is compiled from its own AST node and evaluated by CPython on stub objects "
        "exposing only .integrator and .ri_<x>.safe_mode (exhaustive over 6 integrator names x 2^3 flag combinations)")
REPO = os.environ.get("VERIF_REPO", "/repo")


class _Stub:
    def __init__(self, **kw):
        self.__dict__.update(kw)


@P.task("python.getSimulation.keep_unsynchronized_decision")
def _(v):
    src = open(os.path.join(REPO, "rebound", "simulationarchive.py")).read()
    mod = ast.parse(src)
    fn = next((n for n in ast.walk(mod) if isinstance(n, ast.FunctionDef) and n.name == "getSimulation"), None)
    v.ground("getSimulation_found", fn is not None, "")
    if fn is None:
        return
    conds = []
    for node in ast.walk(fn):
        if isinstance(node, ast.If) and any(isinstance(s, ast.Assign) and isinstance(s.targets[0], ast.Name)
                                            and s.targets[0].id == "keep_unsynchronized" and isinstance(s.value, ast.Constant)
                                            and s.value.value == 0 for s in node.body):
            if "safe_mode" in ast.unparse(node.test):
                conds.append(node.test)
    v.ground("safe_mode_decisions_found", len(conds) >= 2, "conditions guarding `keep_unsynchronized = 0`: %d" % len(conds))
    own = {"whfast": "ri_whfast", "saba": "ri_saba", "mercurius": "ri_mercurius"}
    for k, c in enumerate(conds):
        code = compile(ast.Expression(c), "<getSimulation condition %d>" % k, "eval")
        wrong = []
        for integ in ("ias15", "whfast", "saba", "mercurius", "eos", "janus"):
            for a, b, m in itertools.product((0, 1), repeat=3):
                sim = _Stub(integrator=integ, ri_whfast=_Stub(safe_mode=a), ri_saba=_Stub(safe_mode=b), ri_mercurius=_Stub(safe_mode=m))
                try:
                    got = bool(eval(code, {"sim": sim}))
                except Exception as ex:          # the expression needs something the stub does not model: decided as "wrong"
                    got = "%s: %s" % (type(ex).__name__, ex)
                want = integ in own and getattr(sim, own[integ]).safe_mode == 1
                if got != want:
                    wrong.append((integ, a, b, m, got))
        v.ground("decision%d.off_iff_own_integrator_in_safe_mode" % k, not wrong,
                 "%s: wrong for (integrator, whfast.safe, saba.safe, mercurius.safe, got) in %s" % (ast.unparse(c)[:120], wrong[:4]))
