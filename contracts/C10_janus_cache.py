"""C10 / C04 (JANUS): the integer state p_int is the state of the integrator; the double-precision particles are only its image.
The integer state must be rebuilt from the particles exactly when the user asked for it (flag
recalculate_integer_coordinates_this_timestep, a one-shot request) or when the number of particles changed (add, remove,
merge: index i of p_int no longer belongs to particle i); otherwise it must be left alone -- re-deriving it every step
rounds the state and breaks bit-wise reversibility, not re-deriving it after a removal resurrects pre-removal coordinates
(mass / momentum are no longer those of the particle array).

Contract on the real reb_integrator_janus_part1 (to_int / to_double / drift as recording primitives, realloc through the heap
model), for every order, symbolic N, N_allocated and request flag:
    N_allocated' == N;   flag' == 0;   to_int is called  iff  (N_allocated != N or flag == 1), and before the first drift."""
import z3
from engine.api import Pack, Task
from engine.csym import as_int
from engine.mem import Ptr

FILES = ["src/integrator_janus.c"]
FN = "reb_integrator_janus_part1"


def task(v):
    eng = v.eng
    eng.const_globals = {"s1odr2", "s5odr4", "s9odr6a", "s15odr8", "s33odr10c"}     # `static const` scheme tables: their initialisers
    r, rp = v.struct_obj("struct reb_simulation", "r")
    N, Na, flag = v.int("N"), v.int("N_allocated"), v.int("recalculate_flag")
    v.assume(N >= 1, Na >= 0, z3.Or(flag == 0, flag == 1))
    r.N, r.dt = N, v.real("dt")
    parts = v.array("struct reb_particle", N, "P")
    r.particles = parts.ptr
    for f, val in (("N_allocated", Na), ("recalculate_integer_coordinates_this_timestep", flag), ("order", v.int("order"))):
        eng.write(v.st, Ptr(rp.obj, ("ri_janus", f)), val)
    order = as_int(eng.read(v.st, Ptr(rp.obj, ("ri_janus", "order"))))
    v.assume(z3.Or(*[order == k for k in (2, 4, 6, 8, 10)]))
    old = v.array("struct reb_particle_int", Na, "PINT")
    eng.write(v.st, Ptr(rp.obj, ("ri_janus", "p_int")), old.ptr)
    eng.havoc_calls |= {"reb_simulation_error"}
    log = []

    def prim(name):
        def f(e, st, args, n):
            st.trace = st.trace + [("janus", name)]
            return None
        return f
    for nm in ("to_int", "to_double", "drift", "kick"):
        v.contract(nm, prim(nm))
    v.call(FN, rp)
    rd = lambda f: as_int(eng.read(v.st, Ptr(rp.obj, ("ri_janus", f))))
    calls = [t[1] for t in v.st.trace if t[0] == "janus"]
    v.prove("buffer_sized_for_N", rd("N_allocated") == N)
    v.prove("request_flag_is_one_shot", rd("recalculate_integer_coordinates_this_timestep") == 0)
    rebuilt = "to_int" in calls
    need = z3.Or(Na != N, flag == 1)
    v.prove("integer_state_rebuilt_iff_requested_or_N_changed", need if rebuilt else z3.Not(need))
    v.ground("rebuilt_before_the_first_drift", (not rebuilt) or ("drift" in calls and calls.index("to_int") < calls.index("drift")), str(calls))
    v.ground("step_drifts_the_integer_state", "drift" in calls and "to_double" in calls, str(calls))


def sync_task(v):
    """reb_integrator_janus_synchronize writes the particles from the integer state only when that state belongs to the current
    particle array (N_allocated == N)"""
    eng = v.eng
    r, rp = v.struct_obj("struct reb_simulation", "r")
    N, Na = v.int("N"), v.int("N_allocated")
    v.assume(N >= 0, Na >= 0)
    r.N = N
    eng.write(v.st, Ptr(rp.obj, ("ri_janus", "N_allocated")), Na)

    def to_double(e, st, args, n):
        st.trace = st.trace + [("janus", "to_double")]
        return None
    v.contract("to_double", to_double)
    v.call("reb_integrator_janus_synchronize", rp)
    wrote = any(t[0] == "janus" for t in v.st.trace)
    v.prove("particles_overwritten_only_from_a_matching_integer_state", (Na == N) if wrote else (Na != N))


def make(prop, why):
    P = Pack(prop, FILES, why)
    P.tasks.append(Task(P, "janus.integer_state_follows_the_particle_array", FN, task, files=FILES))
    P.tasks.append(Task(P, "janus.synchronize_uses_matching_integer_state", "reb_integrator_janus_synchronize", sync_task, files=FILES))
    return P


PACKS = [make("C10", "JANUS integer state is rebuilt exactly when requested or when N changed")]
