"""C01 (shared with C09): a WHFast / SABA step must start from coordinates of the current particles; see C09_whfast_cache.py"""
from contracts.C09_whfast_cache import make

PACKS = [make("C01", "WHFast/SABA step starts from coordinates of the current particles (shared with C09)")]
