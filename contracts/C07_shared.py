"""C07 (shared lemma): after a crash the run is restarted from the last complete snapshot and the archive is registered
again; the restart only continues the uninterrupted sequence if the schedule stored IN each snapshot
(simulationarchive_next / next_step) is the time of the NEXT snapshot, i.e. the heartbeat advances the schedule before it
writes.  The cadence contracts of C06 are re-registered here."""
from engine.api import Pack, Task
from contracts import C06_cadence as K

P = Pack("C07", K.P.files, "a snapshot stores the schedule of the next one (shared with C06)")
PACKS = [P]
P.assumptions += ["shared with C06: " + a for a in K.P.assumptions]
for t in K.P.tasks:
    P.tasks.append(Task(P, "restart_schedule." + t.name, t.fn, t.func, files=t.files or K.P.files, timeout=t.timeout))
