"""C01 (shared with C10): the SEI drift operator must use the sin/tan cache of the current dt (a stale cache makes the step after a change of dt first order); see C10_sei_cache.py"""
from contracts.C10_sei_cache import make

PACKS = [make("C01", "SEI operators use the cache of the current dt (shared with C10)")]
