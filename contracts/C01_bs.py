"""C01 (Gragg-Bulirsch-Stoer, src/integrator_bs.c): the algebraic facts that make the extrapolation method
converge at its order, proved on the REAL bodies of tryStep, extrapolate, allocate_sequence_arrays,
reb_integrator_bs_update_particles, nbody_derivatives and reb_integrator_bs_part2.

Specification side (Hairer, Norsett & Wanner, Solving ODEs I, section II.9, which docs/integrators.md names as the
method; nothing below is copied from the code):

  Gragg's modified midpoint method with n sub-steps of size h = H/n on y' = f(t, y)
        y_1     = y_0 + h f(t_0, y_0)
        y_{m+1} = y_{m-1} + 2 h f(t_m, y_m),            t_m = t_0 + m h,    m = 1 .. n-1
        S       = 1/2 (y_n + y_{n-1} + h f(t_n, y_n))   (Gragg's smoothing step, = 1/4 (y_{n-1} + 2 y_n + y_{n+1}))
  applied to the COMBINED system (user ODEs + N-body): every right-hand side of sub-step m sees the state of all
  components at sub-step m.  A user right-hand side reads the N-body state from r->particles, therefore
  r->particles must hold the N-body state y_m whenever a user right-hand side is evaluated at sub-step m.
  S has an asymptotic expansion in h^2 (n even); the step-number sequence for dense output is n_k = 4k+2
  (2, 6, 10, ...), the extrapolation abscissae are x_k = h_k^2/H^2 = 1/n_k^2, and polynomial extrapolation to
  x = 0 (Aitken-Neville) of the values T_k = S(H/n_k) gives order 2k+2.  Work A_0 = n_0 + 1, A_k = A_{k-1} + n_k.

1. CALL ORDER (bs.trystep.call_order.*).  The real tryStep is executed on a system of two ODEs, shapes concrete and
   small (a user ODE of length 2 with needs_nbody = 1 and the internal N-body ODE of N = 2 particles = length 12), the
   user ODE placed BEFORE the N-body ODE in r->odes (that is where reb_ode_create puts an ODE created before the first
   step; placed after it, nbody_derivatives' own update would mask a missing synchronisation -- second arrangement,
   also checked).  n = sequence[k] from the real allocate_sequence_arrays for k = 0, 1 (n = 2, 6): all loops unroll,
   which is exhaustive for these two k and these shapes only (the component loops contain no call -- checked on the AST
   -- so the order of calls does not depend on the lengths).
   Identification of "which state":  the engine's write log is switched on; buffers are identified by OBJECT IDENTITY
   and a ghost VERSION COUNTER per buffer.  At every event (call of a right-hand side, of
   reb_integrator_bs_update_particles, of reb_simulation_update_acceleration) the log is drained: each tracked buffer
   that was written since the previous event gets version+1 ("write epoch").  tryStep writes y1 of every ODE once per
   sub-step, between two sweeps of right-hand sides, so version(ode->y1) IS the sub-step index m.
   reb_integrator_bs_update_particles is recorded as U(buffer object, index, version of that buffer at the call,
   version of the position/velocity fields of r->particles after the call) and then executed for real.
   Obligations at the evaluation of the right-hand side of ODE s in sweep q (q = 0 is sub-step 1):
     rhs_args            called as derivatives(s, s->yDot, s->y1, t) on the objects the struct points to now
     state_is_substep    version(s->y1) = q+1                       (the state of sub-step q+1, written once)
     time_matches_state  t = t0 + (q+1) step/n
   and if s needs the N-body state:
     synced.buffer       the most recent U was called with r->ri_bs.nbody_ode->y1 (object identity, offset 0)
     synced.version      version of that buffer at U = its version now = q+1   (not written since, same sub-step)
     synced.untouched    position/velocity fields of r->particles not written since that U
     synced.values       r->particles[i].{x,y,z,vx,vy,vz} == nbody_ode->y1[6i .. 6i+5]   (state predicate, R-mode)
   On the path that returns 1: exactly n sweeps, each U(tryStep) followed by the right-hand sides in r->odes order.
2. TABLES (bs.tables): the real allocate_sequence_arrays executed, n_k = 4k+2, coeff = 1/n_k^2, work recurrence.
3. EXTRAPOLATION (bs.extrapolate.*): Aitken-Neville on the real extrapolate, every k < sequence_length with the real
   abscissae (Lagrange form, arbitrary data) and k <= 3 with symbolic abscissae (polynomial identity).
4. MODIFIED MIDPOINT (bs.trystep.gragg.*): tryStep = Gragg's smoothed modified midpoint rule, for the test equation
   (polynomial identity in lambda*step, n = 2, 6, 10) and for the coupled system user ODE + N-body with arbitrary
   (uninterpreted) right-hand sides (n = 2 directly, n = 2, 6, 10 evaluation by evaluation).
5. CALLERS (bs.part2.protocol, bs.step.protocol.*): the preconditions used above are what the real callers establish.
"""
import z3
from fractions import Fraction
from engine.api import Pack
from engine.csym import as_real, as_int, simp, const_int
from engine.mem import Ptr, NULL, FuncRef, StructObj, ArrObj

BS = "src/integrator_bs.c"
P = Pack("C01", [BS], "Gragg-Bulirsch-Stoer: sub-step call order, tables, extrapolation, modified midpoint")
PACKS = [P]
R = z3.RealVal
POSVEL = ("x", "y", "z", "vx", "vy", "vz")
PZ = ("polyid", "z3")

P.assume("BS: machine arithmetic treated as mathematical (doubles as reals); integers mathematical")
P.assume("BS call order / modified midpoint: shapes are concrete and small (user ODE length 2 or 1, N = 2 or 1 particles, "
         "2 ODEs); n = sequence[k] for k = 0,1 (call order) resp. n in {2,6,10} (Gragg identity): exhaustive for these only; "
         "the component loops of tryStep contain no calls (checked on the AST), so the call order is shape independent")
P.assume("BS: r->ri_bs.user_ode_needs_nbody = 1 in the tryStep tasks: established by reb_integrator_bs_part2 whenever some "
         "ODE has needs_nbody != 0 (task bs.part2.protocol); r->integrator = REB_INTEGRATOR_BS")
P.assume("BS: a user right-hand side is an arbitrary function of (t, its own y, position/velocity of r->particles) that "
         "writes all of its yDot and nothing else; reb_simulation_update_acceleration writes ax, ay, az of r->particles as "
         "an arbitrary function of their positions and velocities (C02) and nothing else")
P.assume("BS extrapolation protocol: the lines of reb_integrator_bs_step that feed the tableau (C[i] = D[k][i] = y1[i] "
         "after tryStep number k, then extrapolate(ode, coeff, k) for k > 0) are replayed by the harness around the real "
         "extrapolate in bs.extrapolate.*; bs.step.protocol.* proves on the real reb_integrator_bs_step (target_iter = 1,2,3, "
         "two ODEs of length 1) that this is exactly what the caller does")
P.assume("BS: dt != 0 in bs.trystep.gragg.stepwise.* and bs.step.protocol.* (for dt == 0 every sub-step time equals r->t and "
         "nbody_derivatives takes its 'accelerations already calculated' shortcut; that degenerate path is covered by "
         "bs.trystep.call_order.* and bs.trystep.gragg.coupled.*, which make no such assumption)")
P.assume("BS: the stability check of tryStep (j <= maxChecks && k < maxIter) is executed in bs.trystep.call_order.* (both "
         "verdicts explored, definedness of the division by scale[] not checked there); bs.trystep.gragg.* call tryStep with "
         "k = 3 >= maxIter, where the real code performs no check: the modified-midpoint value does not depend on k otherwise")
P.not_decided += [
    "BS: adaptive order and step-size selection of reb_integrator_bs_step (error norm, optimal_step, cost_per_time_unit, "
    "target_iter updates, stability-check thresholds, min_dt/max_dt clamps): not decided by design; only the call protocol "
    "(bs.step.protocol.*) is proved",
    "BS: h^2 error expansion of the smoothed modified midpoint rule for even n and hence order 2k+2 of the extrapolated "
    "value (Gragg's theorem, HNW II.9): mathematics outside the code; proved here are its algebraic premises "
    "(the scheme is Gragg's for the coupled system, n_k = 4k+2 even, abscissae 1/n_k^2, Aitken-Neville extrapolation to 0)",
    "BS: sub-step counts n = sequence[k] for k >= 2 in the call-order tasks and n > 10 in the modified-midpoint tasks "
    "(unrolled instances only), ODE shapes other than the small concrete ones, more than one user ODE, target_iter > 3 in "
    "the step protocol",
    "BS: dt so small that t0 + m h == t0 in floating point (nbody_derivatives would then skip its force evaluation and "
    "re-use stale accelerations): R-mode only, not decided",
    "BS: definedness of the stability norm and of the error norm (division by scale[], which is 0 for a component with "
    "y = 0 when eps_abs = 0): not decided",
]


# ============================================================================ helpers
def run_tables(v):
    """execute the real allocate_sequence_arrays on a fresh struct reb_integrator_bs; python lists of z3 numerals"""
    ri, rip = v.struct_obj("struct reb_integrator_bs", "ri_bs")
    v.call("allocate_sequence_arrays", rip)
    n = const_int(v.eng.global_object(v.st, "sequence_length").value)
    out = {"n": n}
    for f in ("sequence", "cost_per_step", "coeff", "cost_per_time_unit", "optimal_step"):
        p = getattr(ri, f)
        out[f + "_len"] = v.st.mem.get(p.obj).length if isinstance(p, Ptr) and p.obj is not None else None
        if f in ("sequence", "cost_per_step", "coeff"):
            out[f] = [simp(v.read(Ptr(p.obj, (z3.IntVal(i),)))) for i in range(n)]
    return ri, out


def frac(t):
    t = simp(t)
    if z3.is_int_value(t):
        return Fraction(t.as_long())
    return Fraction(t.numerator_as_long(), t.denominator_as_long())


def mk_ode(v, name, L, nD=9):
    """a struct reb_ode in memory with all its buffers (concrete length L), as reb_ode_create lays it out"""
    o, op = v.struct_obj("struct reb_ode", name)
    o.length = L
    bufs = {}
    for f in ("y", "y1", "y0Dot", "yTmp", "yDot", "scale", "C"):
        a = v.array("double", L, "%s_%s" % (name, f), sym=False)
        setattr(o, f, a.ptr)
        bufs[f] = a
    D = v.array("double *", nD, name + "_D", sym=False)
    rows = []
    for j in range(nD):
        row = v.array("double", L, "%s_D%d" % (name, j), sym=False)
        D[j] = row.ptr
        rows.append(row)
    o.D = D.ptr
    bufs["D"] = rows
    bufs["Dtab"] = D
    o.getscale = NULL
    o.pre_timestep = NULL
    o.post_timestep = NULL
    return o, op, bufs


class Sys:
    pass


def mk_system(v, order=("user", "nbody"), Lu=2, N=2):
    """r with N particles, a user ODE (needs_nbody = 1) and the internal N-body ODE, in the given order in r->odes"""
    S = Sys()
    S.N, S.Lu = N, Lu
    S.r, S.rp = v.struct_obj("struct reb_simulation", "r")
    S.parts = v.array("struct reb_particle", N, "P", sym=False)
    S.r.N = N
    S.r.particles = S.parts.ptr
    S.r.integrator = v.enumc("REB_INTEGRATOR_BS")
    S.ode, S.ptr, S.buf = {}, {}, {}
    S.ode["user"], S.ptr["user"], S.buf["user"] = mk_ode(v, "u", Lu)
    S.ode["nbody"], S.ptr["nbody"], S.buf["nbody"] = mk_ode(v, "nb", 6 * N)
    S.ode["user"].needs_nbody = 1
    S.ode["nbody"].needs_nbody = 0
    S.len = {"user": Lu, "nbody": 6 * N}
    for o in S.ode.values():
        o.r = S.rp
    S.order = order
    S.odes = v.array("struct reb_ode *", len(order), "odes", sym=False)
    for i, nm in enumerate(order):
        S.odes[i] = S.ptr[nm]
    S.r.odes = S.odes.ptr
    S.r.N_odes = len(order)
    S.r.ri_bs.nbody_ode = S.ptr["nbody"]
    S.r.ri_bs.user_ode_needs_nbody = 1
    S.ode["user"].derivatives = FuncRef("c01_user_rhs")
    S.ode["nbody"].derivatives = FuncRef("nbody_derivatives")
    S.t0, S.step = v.real("t0"), v.real("step")
    S.r.t = S.t0
    return S


def buf_of(v, S, nm, f):
    """(object id, index) the ODE's field points to in the current state"""
    return ptr_key(getattr(S.ode[nm], f))


def ptr_key(p):
    if not isinstance(p, Ptr):
        return (None, None)
    return (p.obj, const_int(p.path[-1]) if p.path else None)


def exec_real(eng, st, name, args):
    tu, fn = eng.find_function(name)
    return eng.exec_function(st, tu, fn, args)


def component_loops_have_no_calls(v, fn="tryStep"):
    """[(line, calls)] of the innermost loops (loops over components) that contain a call"""
    loops = v.loops_of(fn)
    bad = []
    for i, (o, info) in enumerate(loops):
        inner = i + 1 < len(loops) and loops[i + 1][1]["depth"] > info["depth"]
        if not inner and info["calls"]:
            bad.append((info["line"], sorted(info["calls"])))
    return bad


# ============================================================================ 1. call order
def install_events(v, S, n, tag):
    """trace primitives + ghost version counters (see module docstring)"""
    eng = v.eng
    v.st.log = set()
    tracked = {}
    for nm in S.ode:
        for f in ("y", "y1", "y0Dot", "yTmp", "yDot"):
            tracked[S.buf[nm][f].obj.id] = "%s.%s" % (nm, f)
    pid = S.parts.obj.id
    h = S.step / n
    short = lambda s: s[len(tag) + 1:]

    def drain(st):
        ver = dict(st.ghost.get("c01ver", {}))
        hit = set()
        for (oid, leaf) in (st.log or ()):
            if oid in tracked:
                hit.add(oid)
            elif oid == pid and not (leaf and str(leaf[-1]) in ("ax", "ay", "az")):
                hit.add(pid)              # x..vz, a whole-struct store or an unknown leaf: a position/velocity write
        for oid in hit:
            ver[oid] = ver.get(oid, 0) + 1
        st.ghost["c01ver"] = ver
        st.log = set()
        return ver

    def update_particles(eng_, st, args, node):
        ver = drain(st)
        key = ptr_key(args[1])
        caller = eng_.callstack[-1] if eng_.callstack else "?"
        exec_real(eng_, st, "reb_integrator_bs_update_particles", args)
        ver2 = drain(st)
        st.trace = st.trace + [("U", caller, key, ver.get(key[0], 0), ver2.get(pid, 0))]
        return None

    def update_acceleration(eng_, st, args, node):
        drain(st)
        for i in range(S.N):
            for f in ("ax", "ay", "az"):
                eng_.write(st, Ptr(pid, (z3.IntVal(i), f)), eng_.fresh("acc_%s%d" % (f, i), z3.RealSort()))
        drain(st)
        st.trace = st.trace + [("A", eng_.callstack[-1] if eng_.callstack else "?")]
        return None

    def rhs(nm):
        def f(eng_, st, args, node):
            ver = drain(st)
            q = len([e for e in st.trace if e[0] == "D" and e[1] == nm])
            name = "%s.sweep%d.%s." % (tag, q, nm)
            want = (ptr_key(S.ptr[nm])[0], buf_of(v, S, nm, "yDot"), buf_of(v, S, nm, "y1"))
            got = (ptr_key(args[0])[0], ptr_key(args[1]), ptr_key(args[2]))
            v.ground(short(name) + "rhs_args", got == want and want[1][1] == 0 and want[2][1] == 0,
                     "derivatives(%s) called with (ode, yDot, y) = %s, the ODE's own (ode, yDot, y1) are %s" % (nm, got, want))
            y1id = want[2][0]
            v.ground(short(name) + "state_is_substep", ver.get(y1id, 0) == q + 1,
                     "version of %s->y1 at its right-hand side number %d is %d" % (nm, q, ver.get(y1id, 0)))
            eng_.oblige(st, name + "time_matches_state", as_real(args[3]) == S.t0 + (q + 1) * h)
            if nm == "user":
                us = [e for e in st.trace if e[0] == "U"]
                nbid = buf_of(v, S, "nbody", "y1")
                ok = bool(us)
                v.ground(short(name) + "synced.exists", ok,
                         "no reb_integrator_bs_update_particles before a right-hand side that needs the N-body state")
                if ok:
                    _u, caller, key, uver, pver = us[-1]
                    v.ground(short(name) + "synced.buffer", key == nbid and nbid[1] == 0,
                             "last update_particles (from %s) got %s, nbody_ode->y1 is %s" % (caller, key, nbid))
                    v.ground(short(name) + "synced.version", uver == ver.get(nbid[0], 0) == q + 1,
                             "N-body state had version %d when the particles were synchronised (by %s), has version %d now, "
                             "sub-step is %d" % (uver, caller, ver.get(nbid[0], 0), q + 1))
                    v.ground(short(name) + "synced.untouched", pver == ver.get(pid, 0),
                             "r->particles position/velocity version %d after the synchronisation, %d now" % (pver, ver.get(pid, 0)))
                for i in range(S.N):
                    for c, fl in enumerate(POSVEL):
                        eng_.oblige(st, name + "synced.values.p%d.%s" % (i, fl),
                                    S.parts.leaf(i, fl) == S.buf["nbody"]["y1"][6 * i + c])
            st.trace = st.trace + [("D", nm, q)]
            if nm == "user":
                for i in range(S.Lu):
                    eng_.write(st, Ptr(ptr_key(args[1])[0], (z3.IntVal(i),)), eng_.fresh("fu%d_" % i, z3.RealSort()))
                return None
            return exec_real(eng_, st, "nbody_derivatives", args)
        return f
    eng.trace_prims["reb_integrator_bs_update_particles"] = update_particles
    eng.trace_prims["reb_simulation_update_acceleration"] = update_acceleration
    eng.trace_prims["c01_user_rhs"] = rhs("user")
    eng.trace_prims["nbody_derivatives"] = rhs("nbody")


def call_order_task(k, order):
    oname = "user_first" if order[0] == "user" else "nbody_first"

    @P.task("bs.trystep.call_order.k%d.%s" % (k, oname), fn="tryStep")
    def _(v):
        v.eng.check_defined = False          # definedness of the stability norm (division by scale[]) is not the topic here
        ri, T = run_tables(v)
        n = const_int(T["sequence"][k])
        S = mk_system(v, order)
        tag = v.task.name
        bad = component_loops_have_no_calls(v)
        v.ground("component_loops_contain_no_calls", not bad, str(bad))
        install_events(v, S, n, tag)
        ret = v.call("tryStep", S.rp, len(order), k, n, S.t0, S.step)
        rv = const_int(ret)
        v.ground("returns_0_or_1", rv in (0, 1), str(ret))
        ev = [e for e in v.st.trace if e[0] in ("U", "D")]
        if rv == 1:
            want = []
            for q in range(n):
                want.append(("U", "tryStep"))
                for nm in order:
                    want.append(("D", nm, q))
            got = [(e[0], e[1]) if e[0] == "U" else e for e in ev]
            outer = [e for e in got if e != ("U", "nbody_derivatives")]
            v.ground("accepted.trace_shape", outer == want, "events %s" % (outer,))
            # nbody_derivatives re-synchronises on its own (r->t != t): every sweep, or never (path step == 0)
            inner = [i for i, e in enumerate(got) if e == ("U", "nbody_derivatives")]
            v.ground("accepted.nbody_rhs_own_sync", len(inner) in (0, n) and all(got[i - 1][:2] == ("D", "nbody") for i in inner),
                     "%d synchronisations from nbody_derivatives" % len(inner))
        else:
            sweeps = len([e for e in ev if e[0] == "D" and e[1] == "user"])
            maxchecks = const_int(v.eng.global_object(v.st, "maxChecks").value)
            v.ground("rejected.only_in_checked_substeps", 2 <= sweeps <= 1 + maxchecks, "%d sweeps before return 0" % sweeps)
    return _


for _k in (0, 1):
    for _o in (("user", "nbody"), ("nbody", "user")):
        call_order_task(_k, _o)


# ============================================================================ 2. tables
@P.task("bs.tables", fn="allocate_sequence_arrays")
def _(v):
    """The real allocate_sequence_arrays (executed; sequence_length is the static const of the file, so the loops
    unroll: exhaustive): n_k = 4k+2 (even, increasing), coeff[k] = 1/n_k^2 exactly in R-mode and within 2 ulp when the
    same two operations are done in doubles, cost_per_step = HNW work recurrence (closed form 2(k+1)^2 + 1), every
    array has sequence_length entries."""
    ri, T = run_tables(v)
    n = T["n"]
    v.ground("sequence_length", isinstance(n, int) and n >= 3, "sequence_length = %s" % n)
    for f in ("sequence", "cost_per_step", "coeff", "cost_per_time_unit", "optimal_step"):
        v.ground("allocated.%s" % f, const_int(T[f + "_len"]) == n, "%s has %s entries" % (f, T[f + "_len"]))
    seq = [frac(x) for x in T["sequence"]]
    cost = [frac(x) for x in T["cost_per_step"]]
    coeff = [frac(x) for x in T["coeff"]]
    for k in range(n):
        v.ground("sequence.%d" % k, seq[k] == 4 * k + 2, "sequence[%d] = %s, dense-output sequence 4k+2 = %d" % (k, seq[k], 4 * k + 2))
        v.ground("sequence.%d.even" % k, seq[k] % 2 == 0, "h^2 expansion of the smoothed midpoint rule needs an even n")
        v.ground("coeff.%d" % k, coeff[k] * seq[k] * seq[k] == 1, "coeff[%d] = %s" % (k, coeff[k]))
        fl = (1.0 / float(seq[k])) ** 2
        v.ground("coeff.%d.double_rounding" % k, abs(Fraction(fl) - coeff[k]) <= 2 * Fraction(1, 2 ** 52) * coeff[k],
                 "double evaluation r = 1./n; r*r gives %r" % fl)
        want = seq[0] + 1 if k == 0 else cost[k - 1] + seq[k]
        v.ground("cost_per_step.%d.recurrence" % k, cost[k] == want, "cost_per_step[%d] = %s, A_k = A_{k-1} + n_k = %s" % (k, cost[k], want))
        v.ground("cost_per_step.%d.closed_form" % k, cost[k] == 2 * (k + 1) ** 2 + 1, "%s" % cost[k])
    for k in range(1, n):
        v.ground("abscissae_distinct_decreasing.%d" % k, 0 < coeff[k] < coeff[k - 1], "needed by the divisions in extrapolate")
    v.prove("cost_per_time_unit0_is_0", v.read(Ptr(ri.cost_per_time_unit.obj, (z3.IntVal(0),))) == 0)


# ============================================================================ 3. extrapolation
def feed_and_extrapolate(v, ri_coeff, op, B, vals, upto):
    """the caller's protocol (reb_integrator_bs_step): after tryStep number kk, C = D[kk] = T_kk, then extrapolate(kk)"""
    diag = []
    for kk in range(upto + 1):
        B["C"][0] = vals[kk]
        B["D"][kk][0] = vals[kk]
        if kk > 0:
            v.call("extrapolate", op, ri_coeff, kk)
            diag.append((simp(B["y1"][0]), simp(B["C"][0])))
        else:
            diag.append((vals[0], None))
    return diag


def lagrange_weights_at_zero(xs):
    """w_j = prod_{i != j} x_i / (x_i - x_j): the value at 0 of the polynomial through (x_j, y_j) is sum_j w_j y_j"""
    out = []
    for j in range(len(xs)):
        w = Fraction(1)
        for i in range(len(xs)):
            if i != j:
                w *= xs[i] / (xs[i] - xs[j])
        out.append(w)
    return out


@P.task("bs.extrapolate.real_table", fn="extrapolate")
def _(v):
    """Every k = 1 .. sequence_length-1 (unrolled, exhaustive) with the abscissae produced by the real
    allocate_sequence_arrays: after the tableau was fed with arbitrary values T_0..T_k, extrapolate(ode, coeff, k)
    leaves in y1 the value at 0 of the interpolation polynomial through (coeff[j], T_j), j <= k (Lagrange form written
    here from the definition); hence P(0) for T_j = P(coeff[j]), deg P <= k (second clause, symbolic coefficients);
    C is the last correction P_{0..k}(0) - P_{0..k-1}(0) (the error estimate the step control reads)."""
    ri, T = run_tables(v)
    n = T["n"]
    K = n - 1
    xs = [frac(x) for x in T["coeff"]]
    o, op, B = mk_ode(v, "ode", 1, nD=n)
    vals = [v.real("T%d" % j) for j in range(n)]
    diag = feed_and_extrapolate(v, ri.coeff, op, B, vals, K)
    for k in range(1, K + 1):
        y1, C = diag[k]
        w = lagrange_weights_at_zero(xs[:k + 1])
        spec = sum((R(w[j]) * vals[j] for j in range(1, k + 1)), R(w[0]) * vals[0])
        v.prove("k%d.lagrange" % k, y1 == spec)
        v.prove("k%d.error_estimate_is_last_correction" % k, C == y1 - diag[k - 1][0])
    # polynomial data
    a = [v.real("a%d" % m) for m in range(n)]
    for k in range(1, K + 1):
        sub = [(vals[j], sum((a[m] * R(xs[j] ** m) for m in range(1, k + 1)), a[0])) for j in range(k + 1)]
        v.prove("k%d.returns_P_of_0" % k, z3.substitute(diag[k][0], *sub) == a[0])


def extrapolate_symbolic_task(K):
    @P.task("bs.extrapolate.symbolic_abscissae.k%d" % K, fn="extrapolate")
    def _(v):
        """Same statement with SYMBOLIC pairwise distinct abscissae x_0..x_k (any step-number sequence): polynomial identity
        on the real body; T_j = P(x_j), P of degree <= k with symbolic coefficients => y1 = P(0)."""
        n = K + 1
        xs = [v.real("x%d" % j) for j in range(n)]
        for i in range(n):
            for j in range(i):
                v.assume(xs[i] != xs[j])
        coeff = v.array("double", n, "coeff", sym=False)
        for j in range(n):
            coeff[j] = xs[j]
        o, op, B = mk_ode(v, "ode", 1, nD=n)
        a = [v.real("a%d" % m) for m in range(n)]
        vals = [sum((a[m] * xs[j] ** m for m in range(1, K + 1)), a[0]) for j in range(n)]
        diag = feed_and_extrapolate(v, coeff.ptr, op, B, vals, K)
        v.prove("returns_P_of_0", diag[K][0] == a[0], order=PZ)
    return _


for _K in (1, 2, 3):
    extrapolate_symbolic_task(_K)


# ============================================================================ 4. modified midpoint
def gragg(f, y0, f0, t0, H, n):
    """Gragg's method with smoothing on vectors (python lists of z3 terms); f(t, y) -> list; f0 = f(t0, y0) given"""
    h = H / n
    ym, y = list(y0), [a + h * b for a, b in zip(y0, f0)]
    for m in range(1, n):
        fy = f(t0 + m * h, y)
        ym, y = y, [a + 2 * h * b for a, b in zip(ym, fy)]
    fy = f(t0 + n * h, y)
    return [(a + b + h * c) / 2 for a, b, c in zip(ym, y, fy)]


def z3_to_sympy(t, names):
    import sympy
    if z3.is_rational_value(t):
        return sympy.Rational(t.numerator_as_long(), t.denominator_as_long())
    if z3.is_int_value(t):
        return sympy.Integer(t.as_long())
    k = t.decl().kind()
    ch = [z3_to_sympy(c, names) for c in t.children()]
    if k == z3.Z3_OP_ADD:
        return sum(ch[1:], ch[0])
    if k == z3.Z3_OP_MUL:
        r = ch[0]
        for c in ch[1:]:
            r = r * c
        return r
    if k == z3.Z3_OP_SUB:
        r = ch[0]
        for c in ch[1:]:
            r = r - c
        return r
    if k == z3.Z3_OP_UMINUS:
        return -ch[0]
    if k == z3.Z3_OP_DIV:
        return ch[0] / ch[1]
    if k == z3.Z3_OP_POWER:
        return ch[0] ** ch[1]
    if k == z3.Z3_OP_TO_REAL:
        return ch[0]
    if k == z3.Z3_OP_UNINTERPRETED and not ch:
        return names[str(t)]
    raise ValueError("z3_to_sympy: %s" % t.decl())


def gragg_scalar_task(n):
    @P.task("bs.trystep.gragg.test_equation.n%d" % n, fn="tryStep")
    def _(v):
        """One ODE of length 1 with right-hand side y' = lambda y (contract of the callback), y0Dot = lambda y0 as the caller's
        first evaluation leaves it: tryStep(n) returns Gragg's modified midpoint value with the smoothing step -- polynomial
        identity in lambda, step, y0 -- and that value is consistent of order 2: it agrees with
        y0 (1 + z + z^2/2), z = lambda step, up to terms of degree >= 3 in step (coefficients compared exactly)."""
        r, rp = v.struct_obj("struct reb_simulation", "r")
        r.integrator = v.enumc("REB_INTEGRATOR_BS")
        r.ri_bs.user_ode_needs_nbody = 0
        o, op, B = mk_ode(v, "ode", 1)
        o.needs_nbody = 0
        o.r = rp
        odes = v.array("struct reb_ode *", 1, "odes", sym=False)
        odes[0] = op
        r.odes, r.N_odes = odes.ptr, 1
        lam, y0, t0, H = v.real("lam"), v.real("y0"), v.real("t0"), v.real("step")
        B["y"][0] = y0
        B["y0Dot"][0] = lam * y0
        v.assume(B["scale"][0] > 0)
        o.derivatives = FuncRef("c01_linear_rhs")
        times = []

        def rhs(eng, st, args, node):
            times.append(as_real(args[3]))
            eng.write(st, Ptr(args[1].obj, (z3.IntVal(0),)), lam * as_real(eng.read(st, Ptr(args[2].obj, (z3.IntVal(0),)))))
        v.contract("c01_linear_rhs", rhs)
        ret = v.call("tryStep", rp, 1, 3, n, t0, H)      # k = 3 >= maxIter: no stability check, single path
        v.prove("returns_1", ret == 1)
        spec = gragg(lambda t, y: [lam * y[0]], [y0], [lam * y0], t0, H, n)[0]
        v.prove("equals_gragg_with_smoothing", B["y1"][0] == spec, order=PZ)
        v.ground("n_evaluations", len(times) == n, "%d right-hand-side evaluations" % len(times))
        for m, t in enumerate(times):
            v.prove("time.%d" % (m + 1), t == t0 + (m + 1) * H / n)
        # consistency: Taylor coefficients in `step` of the code's value
        import sympy
        L_, Y_, H_ = sympy.symbols("lam y0 step")
        out = sympy.Poly(sympy.expand(z3_to_sympy(simp(B["y1"][0]), {"lam": L_, "y0": Y_, "step": H_})), H_)
        want = {0: Y_, 1: L_ * Y_, 2: L_ ** 2 * Y_ / 2}
        for d, w in want.items():
            got = out.coeff_monomial(H_ ** d)
            v.ground("consistency.order2.step^%d" % d, sympy.simplify(got - w) == 0, "coefficient of step^%d is %s" % (d, got))
    return _


for _n in (2, 6, 10):
    gragg_scalar_task(_n)


def gragg_coupled_task(n, order, Lu=1, N=1):
    oname = "user_first" if order[0] == "user" else "nbody_first"

    @P.task("bs.trystep.gragg.coupled.n%d.%s" % (n, oname), fn="tryStep")
    def _(v):
        """The combined system (user ODE that reads r->particles + N-body ODE through the real nbody_derivatives and
        reb_integrator_bs_update_particles) with ARBITRARY right-hand sides: the user's yDot_i = Fu_i(t, y_user, positions and
        velocities found in r->particles), accelerations = A_ic(positions and velocities in r->particles), Fu and A
        uninterpreted.  tryStep(n) leaves in y1 of both ODEs exactly Gragg's smoothed modified-midpoint value of the
        coupled system f(t, (y_user, y_nbody)) = (Fu(t, y_user, y_nbody), (v, A(y_nbody))) -- in particular every right-hand
        side of sub-step m is evaluated on the sub-step-m state of BOTH components (a stale r->particles would put
        y_nbody of sub-step m-1 into Fu and break the identity)."""
        v.eng.check_defined = False
        S = mk_system(v, order, Lu=Lu, N=N)
        RS = z3.RealSort()
        Fu = [z3.Function("Fu%d" % i, *([RS] * (1 + Lu + 6 * N) + [RS])) for i in range(Lu)]
        A = [[z3.Function("A%d%s" % (i, c), *([RS] * (6 * N) + [RS])) for c in "xyz"] for i in range(N)]
        pid = S.parts.obj.id

        def particle_state(eng, st):
            return [as_real(eng.read(st, Ptr(pid, (z3.IntVal(i), fl)))) for i in range(N) for fl in POSVEL]

        def user_rhs(eng, st, args, node):
            y = [as_real(eng.read(st, Ptr(args[2].obj, (z3.IntVal(i),)))) for i in range(Lu)]
            ps = particle_state(eng, st)
            for i in range(Lu):
                eng.write(st, Ptr(args[1].obj, (z3.IntVal(i),)), Fu[i](as_real(args[3]), *(y + ps)))
        v.contract("c01_user_rhs", user_rhs)

        def acc(eng, st, args, node):
            ps = particle_state(eng, st)
            for i in range(N):
                for c, fl in enumerate(("ax", "ay", "az")):
                    eng.write(st, Ptr(pid, (z3.IntVal(i), fl)), A[i][c](*ps))
        v.contract("reb_simulation_update_acceleration", acc)

        def f(t, Y):
            yu, yn = Y[:Lu], Y[Lu:]
            out = [Fu[i](t, *(yu + yn)) for i in range(Lu)]
            for i in range(N):
                out += [yn[6 * i + 3], yn[6 * i + 4], yn[6 * i + 5]] + [A[i][c](*yn) for c in range(3)]
            return out
        Y0 = [S.buf["user"]["y"][i] for i in range(Lu)] + [S.buf["nbody"]["y"][i] for i in range(6 * N)]
        F0 = [S.buf["user"]["y0Dot"][i] for i in range(Lu)] + [S.buf["nbody"]["y0Dot"][i] for i in range(6 * N)]
        ret = v.call("tryStep", S.rp, len(order), 3, n, S.t0, S.step)     # k = 3 >= maxIter: no stability check
        v.prove("returns_1", ret == 1)
        spec = gragg(f, Y0, F0, S.t0, S.step, n)
        for i in range(Lu):
            v.prove("user.y1_%d" % i, S.buf["user"]["y1"][i] == spec[i])
        for i in range(6 * N):
            v.prove("nbody.y1_%d" % i, S.buf["nbody"]["y1"][i] == spec[Lu + i])
    return _


gragg_coupled_task(2, ("user", "nbody"))
gragg_coupled_task(2, ("nbody", "user"))


def gragg_stepwise_task(n, order, Lu=2, N=2):
    oname = "user_first" if order[0] == "user" else "nbody_first"

    @P.task("bs.trystep.gragg.stepwise.n%d.%s" % (n, oname), fn="tryStep")
    def _(v):
        """Same statement as bs.trystep.gragg.coupled for larger n, proved evaluation by evaluation (keeps every obligation a
        polynomial identity): the m-th evaluation of the user right-hand side / of the accelerations returns fresh symbols
        and records what it was given; obligations: (a) evaluation m is given (t0 + m h, y_user of sub-step m, r->particles =
        y_nbody of sub-step m), where 'sub-step m' is the specification's recursion built from the symbols of the earlier
        evaluations; (b) the final y1 is the smoothing formula in these symbols.  By induction over m the symbols are
        f(t_m, Y_m) of one fixed right-hand side f of the coupled system, which is bs.trystep.gragg.coupled for this n."""
        v.eng.check_defined = False
        S = mk_system(v, order, Lu=Lu, N=N)
        pid = S.parts.obj.id
        rec_u, rec_a = [], []

        def particle_state(eng, st):
            return [as_real(eng.read(st, Ptr(pid, (z3.IntVal(i), fl)))) for i in range(N) for fl in POSVEL]

        def user_rhs(eng, st, args, node):
            y = [as_real(eng.read(st, Ptr(args[2].obj, (z3.IntVal(i),)))) for i in range(Lu)]
            out = [z3.Real("fu_%d_%d" % (len(rec_u) + 1, i)) for i in range(Lu)]
            rec_u.append((as_real(args[3]), y, particle_state(eng, st), out))
            for i in range(Lu):
                eng.write(st, Ptr(args[1].obj, (z3.IntVal(i),)), out[i])
        v.contract("c01_user_rhs", user_rhs)

        def acc(eng, st, args, node):
            out = [z3.Real("acc_%d_%d" % (len(rec_a) + 1, j)) for j in range(3 * N)]
            rec_a.append((particle_state(eng, st), out))
            for i in range(N):
                for c, fl in enumerate(("ax", "ay", "az")):
                    eng.write(st, Ptr(pid, (z3.IntVal(i), fl)), out[3 * i + c])
        v.contract("reb_simulation_update_acceleration", acc)
        v.assume(S.step != 0)              # step == 0: nbody_derivatives takes its `first evaluation` shortcut (r->t == t)
        Y0 = [S.buf["user"]["y"][i] for i in range(Lu)] + [S.buf["nbody"]["y"][i] for i in range(6 * N)]
        F0 = [S.buf["user"]["y0Dot"][i] for i in range(Lu)] + [S.buf["nbody"]["y0Dot"][i] for i in range(6 * N)]
        ret = v.call("tryStep", S.rp, len(order), 3, n, S.t0, S.step)     # k = 3 >= maxIter: no stability check
        v.prove("returns_1", ret == 1)
        v.ground("evaluations", len(rec_u) == n and len(rec_a) == n, "%d user, %d acceleration evaluations" % (len(rec_u), len(rec_a)))
        h = S.step / n
        ym, y = list(Y0), [a + h * b for a, b in zip(Y0, F0)]
        for m in range(1, n + 1):
            t, yu, ps, fu = rec_u[m - 1]
            ps_a, fa = rec_a[m - 1]
            v.prove("eval%d.time" % m, t == S.t0 + m * h)
            for i in range(Lu):
                v.prove("eval%d.user_state_%d" % (m, i), yu[i] == y[i], order=PZ)
            for j in range(6 * N):
                v.prove("eval%d.user_sees_nbody_state_%d" % (m, j), ps[j] == y[Lu + j], order=PZ)
                v.prove("eval%d.forces_see_nbody_state_%d" % (m, j), ps_a[j] == y[Lu + j], order=PZ)
            fm = list(fu)
            for i in range(N):
                fm += [y[Lu + 6 * i + 3], y[Lu + 6 * i + 4], y[Lu + 6 * i + 5]] + fa[3 * i:3 * i + 3]
            if m < n:
                ym, y = y, [a + 2 * h * b for a, b in zip(ym, fm)]
        spec = [(a + b + h * c) / 2 for a, b, c in zip(ym, y, fm)]
        for i in range(Lu):
            v.prove("user.y1_%d" % i, S.buf["user"]["y1"][i] == spec[i], order=PZ)
        for i in range(6 * N):
            v.prove("nbody.y1_%d" % i, S.buf["nbody"]["y1"][i] == spec[Lu + i], order=PZ)
    return _


gragg_stepwise_task(2, ("user", "nbody"))
gragg_stepwise_task(6, ("user", "nbody"))
gragg_stepwise_task(6, ("nbody", "user"))
gragg_stepwise_task(10, ("user", "nbody"))


# ============================================================================ 5. callers: part2 and step protocol
@P.task("bs.part2.protocol", fn="reb_integrator_bs_part2")
def _(v):
    """reb_integrator_bs_part2 around reb_integrator_bs_step (contract: arbitrary new nbody_ode->y, arbitrary verdict):
    the flag the tryStep tasks assume (user_ode_needs_nbody = 1 as soon as some ODE has needs_nbody != 0) is set before
    the step; the N-body state vector is packed as y[6i..6i+5] = (x,y,z,vx,vy,vz) of particle i -- the inverse of the real
    reb_integrator_bs_update_particles, which is executed afterwards on the step's result (round trip proved
    component-wise); t advances by the dt that was passed iff the step was accepted; dt := dt_proposed."""
    S = mk_system(v, ("user", "nbody"))
    nn, flag0 = v.int("needs_nbody"), v.int("flag0")
    S.ode["user"].needs_nbody = nn
    S.r.ri_bs.user_ode_needs_nbody = flag0
    dt, prop, ok = v.real("dt"), v.real("dt_proposed"), v.int("accepted")
    S.r.dt = dt
    v.assume(z3.Or(ok == 0, ok == 1))
    p0 = [S.parts.leaf(i, fl) for i in range(S.N) for fl in POSVEL]
    seen = {}
    newy = [v.real("ynew%d" % j) for j in range(6 * S.N)]

    def step(eng, st, args, node):
        seen["flag"] = eng.read(st, Ptr(S.rp.obj, ("ri_bs", "user_ode_needs_nbody")))
        seen["dt"] = as_real(args[1])
        seen["y"] = [S.buf["nbody"]["y"][j] for j in range(6 * S.N)]
        seen["ybuf"] = buf_of(v, S, "nbody", "y")
        for j in range(6 * S.N):
            S.buf["nbody"]["y"][j] = newy[j]
        eng.write(st, Ptr(S.rp.obj, ("ri_bs", "dt_proposed")), prop)
        return ok
    v.contract("reb_integrator_bs_step", step)
    v.call("reb_integrator_bs_part2", S.rp)
    v.ground("step_called_once", "flag" in seen)
    v.prove("flag_set_when_an_ode_needs_nbody", z3.Implies(nn != 0, seen["flag"] == 1))
    v.prove("flag_otherwise_unchanged", z3.Implies(nn == 0, seen["flag"] == flag0))
    v.prove("step_gets_dt", seen["dt"] == dt)
    v.ground("nbody_ode_kept_when_length_matches", seen["ybuf"] == (S.buf["nbody"]["y"].obj.id, 0), str(seen["ybuf"]))
    for j in range(6 * S.N):
        v.prove("packed.%d" % j, seen["y"][j] == p0[j])
        v.prove("unpacked.%d" % j, S.parts.leaf(j // 6, POSVEL[j % 6]) == newy[j])
    v.prove("time", S.r.t == z3.If(ok != 0, S.t0 + dt, S.t0))
    v.prove("dt_last_done", z3.Implies(ok != 0, S.r.dt_last_done == dt))
    v.prove("dt_is_proposal", S.r.dt == prop)


def step_protocol_task(target):
    @P.task("bs.step.protocol.target%d" % target, fn="reb_integrator_bs_step")
    def _(v):
        """Every path of the real reb_integrator_bs_step (target_iter concrete, every accept/reject/stability verdict,
        the numbers that drive the order and step-size control left arbitrary) with tryStep and extrapolate replaced by
        recording contracts: the j-th tryStep of a step is tryStep(r, N_odes, j, sequence[j], r->t, dt) with the caller's
        dt; after a successful one C = D[j] = y1 is stored for every ODE and extrapolate(ode, ri_bs->coeff, j) is called
        for every ODE iff j > 0 (what bs.extrapolate.* replay); the first evaluation uses (y0Dot, y, r->t); on return 1
        y and y1 are swapped (y = extrapolated state), on return 0 ode->y is the untouched start state."""
        v.eng.check_defined = False
        v.eng.prune_timeout = 100           # feasibility pruning only; 'unknown' keeps the path
        ri, T = run_tables(v)
        # two ODEs of length 1 (reb_integrator_bs_step treats the N-body ODE like any other: only its callback differs)
        S = Sys()
        S.r, S.rp = v.struct_obj("struct reb_simulation", "r")
        S.order = ("user", "nbody")
        S.ode, S.ptr, S.buf, S.len = {}, {}, {}, {}
        for nm, cb in (("user", "c01_user_rhs"), ("nbody", "nbody_derivatives")):
            S.ode[nm], S.ptr[nm], S.buf[nm] = mk_ode(v, nm[0], 1)
            S.ode[nm].derivatives = FuncRef(cb)
            S.ode[nm].r = S.rp
            S.len[nm] = 1
        S.odes = v.array("struct reb_ode *", 2, "odes", sym=False)
        for i, nm in enumerate(S.order):
            S.odes[i] = S.ptr[nm]
        S.r.odes, S.r.N_odes = S.odes.ptr, 2
        S.r.integrator = v.enumc("REB_INTEGRATOR_BS")
        S.t0 = v.real("t0")
        S.r.t = S.t0
        r = S.r
        for f in ("sequence", "cost_per_step", "coeff", "cost_per_time_unit", "optimal_step"):
            setattr(r.ri_bs, f, getattr(ri, f))
        r.ri_bs.target_iter = target
        r.ri_bs.previous_rejected = v.int("previous_rejected")
        r.ri_bs.first_or_last_step = v.int("first_or_last_step")
        dt = v.real("dt")
        v.assume(dt != 0)
        names = list(S.order)
        ybuf0 = {nm: buf_of(v, S, nm, "y") for nm in names}
        y1buf0 = {nm: buf_of(v, S, nm, "y1") for nm in names}
        ystart = {nm: [S.buf[nm]["y"][i] for i in range(S.len[nm])] for nm in names}
        log = []

        def which(p):
            for nm in names:
                if ptr_key(p)[0] == S.ptr[nm].obj:
                    return nm
            return None

        def rhs(eng, st, args, node):
            nm = which(args[0])
            log.append(("D", nm, ptr_key(args[1]) == buf_of(v, S, nm, "y0Dot"), ptr_key(args[2]) == buf_of(v, S, nm, "y"),
                        as_real(args[3])))
            for i in range(S.len[nm]):
                eng.write(st, Ptr(args[1].obj, (z3.IntVal(i),)), eng.fresh("f0", z3.RealSort()))
        v.contract("c01_user_rhs", rhs)
        v.contract("nbody_derivatives", rhs)

        def trystep(eng, st, args, node):
            j = len([e for e in log if e[0] == "T"])
            log.append(("T", j, args[1], args[2], args[3], as_real(args[4]), as_real(args[5])))
            for nm in names:
                for i in range(S.len[nm]):
                    S.buf[nm]["y1"][i] = eng.fresh("T%d_%s" % (j, nm), z3.RealSort())
            return z3.IntVal(1 - eng.choose(st, 2, "tryStep verdict"))
        v.contract("tryStep", trystep)

        def extrap(eng, st, args, node):
            nm = which(args[0])
            k = const_int(args[2])
            fed = all(z3.is_true(simp(z3.And(S.buf[nm]["C"][i] == S.buf[nm]["y1"][i], S.buf[nm]["D"][k][i] == S.buf[nm]["y1"][i])))
                      for i in range(S.len[nm])) if k is not None else False
            log.append(("E", nm, k, ptr_key(args[1]) == ptr_key(ri.coeff), fed))
            for i in range(S.len[nm]):
                S.buf[nm]["y1"][i] = eng.fresh("X%s_%s" % (k, nm), z3.RealSort())
                S.buf[nm]["C"][i] = eng.fresh("C%s_%s" % (k, nm), z3.RealSort())
        v.contract("extrapolate", extrap)
        v.eng.havoc_calls.add("reb_simulation_warning")
        v.eng.havoc_calls.add("reb_simulation_error")
        v.loop_where("reb_integrator_bs_step", lambda info: "tryStep" in info["calls"], unroll=12)
        ret = v.call("reb_integrator_bs_step", S.rp, dt)
        # accepted <=> the y / y1 pointers were swapped (pointer identity is concrete); the return value may be a merged
        # term whose value follows from the path condition: proved, not assumed
        swapped = all(buf_of(v, S, nm, "y") == y1buf0[nm] for nm in names)
        rv = 1 if swapped else 0
        v.prove("return_value_is_1_iff_swapped", as_int(ret) == rv)
        first = [e for e in log if e[0] == "D"]
        v.ground("first_evaluation.every_ode_once_in_order", [e[1] for e in first] == names, str([e[1] for e in first]))
        v.ground("first_evaluation.buffers", all(e[2] and e[3] for e in first), "derivatives(ode, ode->y0Dot, ode->y, t)")
        for e in first:
            v.prove("first_evaluation.%s.time" % e[1], e[4] == S.t0)
        tries = [e for e in log if e[0] == "T"]
        v.ground("trystep.at_least_one", len(tries) >= 1)
        v.ground("trystep.k_counts_up_from_0", [const_int(e[3]) for e in tries] == list(range(len(tries))), str([e[3] for e in tries]))
        v.ground("trystep.k_in_table_range", len(tries) <= T["n"], "%d tries" % len(tries))
        for e in tries:
            j = e[1]
            v.prove("trystep.%d.n_is_sequence" % j, as_int(e[4]) == 4 * j + 2)
            v.prove("trystep.%d.Ns" % j, as_int(e[2]) == len(names))
            v.prove("trystep.%d.t0" % j, e[5] == S.t0)
            v.prove("trystep.%d.step_is_dt" % j, e[6] == dt)
        # extrapolate calls between consecutive tryStep calls
        idx = [i for i, e in enumerate(log) if e[0] == "T"] + [len(log)]
        okE = True
        detail = ""
        for a in range(len(tries)):
            seg = [e for e in log[idx[a] + 1:idx[a + 1]] if e[0] == "E"]
            last_failed = (a == len(tries) - 1) and not any(True for _ in seg) and a > 0
            want = [(nm, a) for nm in names] if a > 0 else []
            got = [(e[1], e[2]) for e in seg]
            if got != want and not (a == len(tries) - 1 and got == []):
                okE, detail = False, "after tryStep %d: extrapolate calls %s, expected %s" % (a, got, want)
            if not all(e[3] and e[4] for e in seg):
                okE, detail = False, "after tryStep %d: extrapolate not given ri_bs->coeff or C/D[k] not fed with y1: %s" % (a, seg)
        v.ground("extrapolate.protocol", okE, detail)
        if rv == 1:
            v.ground("accepted.last_try_was_extrapolated", len(tries) >= 2 and
                     [(e[1], e[2]) for e in log[idx[len(tries) - 1] + 1:] if e[0] == "E"] == [(nm, len(tries) - 1) for nm in names],
                     "%d tries" % len(tries))
            for nm in names:
                v.ground("accepted.%s.y_y1_swapped" % nm, buf_of(v, S, nm, "y") == y1buf0[nm] and buf_of(v, S, nm, "y1") == ybuf0[nm],
                         "y -> %s, y1 -> %s" % (buf_of(v, S, nm, "y"), buf_of(v, S, nm, "y1")))
        else:
            for nm in names:
                v.ground("rejected.%s.y_pointer_kept" % nm, buf_of(v, S, nm, "y") == ybuf0[nm])
                for i in range(S.len[nm]):
                    v.prove("rejected.%s.y_unchanged.%d" % (nm, i), S.buf[nm]["y"][i] == ystart[nm][i])
    return _


for _t in (1, 2, 3):
    step_protocol_task(_t)
