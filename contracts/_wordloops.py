"""Particle loops as word letters (helpers for C01/C09/C10 *_more packs).

LEAPFROG, SEI, the SABA correctors and the WHFast MODIFIEDKICK/LAZY kernels do not call primitive sub-steps: their
part1/part2 contain `for (i=lo; i<N; i++) BODY` loops over the particle array.  `LoopLetters` is a custom loop handler
(engine `LoopSpec(mode="custom")`) that turns such a loop into letters of the operator word by PROVING a per-particle body
contract on the real loop body:

  1. header: the loop variable starts at the expected lower bound, the increment is +1 and the real condition is
     equivalent to `i < N` on [lo, oo) -- so the visited set is exactly [lo, N);
  2. body: executed ONCE for a symbolic index i in that range, with the write log on;
  3. frame: every array leaf the body writes is written at index i only (obligation with a fresh k != i), nothing but
     leaves of the declared arrays is written;
  4. contract: the pack's `classify(B)` callback inspects the post-values of element i (terms over the pre-state element-i
     leaves and dt), states obligations and returns the letters to append to the trace.

After the loop the written leaves are havocked in the continuing state (as the primitive letters of _words.py do): the
word-level packs use only the trace.
"""
from fractions import Fraction
import z3
from engine import opword
from engine.mem import Ptr, Cell, ArrObj
from engine.csym import Unsupported, NORMAL, LoopSpec, as_bool, as_int, simp, is_z3, Flow


class Body:
    """What `classify` sees: pre/post element-i leaves of the arrays touched by one iteration."""

    def __init__(self, ll, eng, st_pre, st_post, i, written, label):
        self.ll, self.eng, self.st_pre, self.st, self.i, self.written, self.label = ll, eng, st_pre, st_post, i, written, label
        self.v = ll.v
        self.dt = ll.dt

    def arr(self, st, av):
        return st.mem.objs[av._a.id]

    def pre(self, av, *leaf):
        return z3.Select(self.eng._leaf_array(self.arr(self.st_pre, av), tuple(leaf)), self.i)

    def post(self, av, *leaf):
        return z3.simplify(z3.Select(self.eng._leaf_array(self.arr(self.st, av), tuple(leaf)), self.i))

    def wrote(self, av, *leaf):
        return (av._a.id, tuple(leaf)) in self.written

    def prove(self, name, goal, **meta):
        ob = self.eng.oblige(self.st, "%s.%s.%s" % (self.v.task.name, self.label, name), goal, "post")
        ob.meta.update(meta)
        return ob

    def ground(self, name, ok, detail=""):
        return self.v.ground("%s.%s" % (self.label, name), ok, detail)


class LoopLetters:
    def __init__(self, v, dt, N, arrays):
        """arrays: {name: AV} -- the particle arrays a loop body may write"""
        self.v, self.dt, self.N, self.arrays = v, dt, N, dict(arrays)
        self.count = {}

    def attach(self, fn, ordinal, classify, lo=0, label=None, hi=None):
        label = label or "%s.loop%d" % (fn.replace("reb_integrator_", "").replace("reb_", ""), ordinal)

        def h(eng, st, node, cond, inc, body):
            return self._handle(eng, st, node, cond, inc, body, classify, lo, label, hi)
        self.v.eng.loopspecs[(fn, ordinal)] = LoopSpec(h, mode="custom")

    # -- loop variable (same recognition as engine.accum)
    def _loopvar(self, eng, st, node):
        init = node["inner"][0]
        did = None
        if init.get("kind") == "DeclStmt":
            ds = [d for d in init.get("inner", []) if d.get("kind") == "VarDecl"]
            if len(ds) == 1:
                did, name = ds[0]["id"], ds[0]["name"]
        if did is None or did not in st.frames[-1]:
            raise Unsupported("looplet: cannot identify the loop variable of the loop at line %s" % node.get("_line"))
        cell = st.mem.objs[st.frames[-1][did]]
        if not isinstance(cell, Cell) or not (is_z3(cell.value) and z3.is_int(cell.value)):
            raise Unsupported("looplet: loop variable %s is not an integer cell" % name)
        return cell, name

    def _handle(self, eng, st, node, cond, inc, body, classify, lo_expected, label, hi):
        v = self.v
        k_occ = self.count[label] = self.count.get(label, 0) + 1
        tag = label if k_occ == 1 else "%s@%d" % (label, k_occ)
        tn = v.task.name
        if cond is None or inc is None:
            raise Unsupported("looplet: loop without condition/increment")
        cell, name = self._loopvar(eng, st, node)
        lo = z3.simplify(cell.value)
        v.ground(tag + ".header.lower_bound", z3.is_int_value(lo) and lo.as_long() == lo_expected,
                 "loop starts at %s, contract says %d" % (lo, lo_expected))
        # unit stride
        s0 = st.clone()
        probe = eng.fresh("stride_probe", z3.IntSort())
        s0.mem.objs[cell.id].value = probe
        s0.log = None
        eng.rvalue(s0, inc)
        d = z3.simplify(s0.mem.objs[cell.id].value - probe)
        v.ground(tag + ".header.unit_stride", z3.is_int_value(d) and d.as_long() == 1, "increment %s" % d)
        # one arbitrary iteration
        s = st.clone()
        i = eng.fresh(name, z3.IntSort())
        s.mem.objs[cell.id].value = i
        s.assume(i >= lo)
        c = as_bool(eng.rvalue(s, cond))
        upper = self.N if hi is None else hi
        eng.oblige(s, "%s.%s.header.visits_exactly_lo_to_N" % (tn, tag), c == (i < upper), "loop", node)
        s.assume(c)
        pre = s.clone()
        s.log = set()
        fl = eng.exec_stmt(s, body)
        if fl.kind != Flow.NORMAL:
            raise Unsupported("looplet: break/return inside a particle loop")
        written = set(s.log)
        s.log = None
        ok_ids = {av._a.id: nm for nm, av in self.arrays.items()}
        bad = []
        arr_written = set()
        for (oid, leaf) in sorted(written, key=str):
            if oid not in pre.mem.objs:
                continue                       # objects created inside the body (locals of inlined callees)
            o = pre.mem.objs[oid]
            if isinstance(o, Cell) and o.id in [x for fr in s.frames for x in fr.values()] and o.id != cell.id and \
                    o.id not in [x for fr in pre.frames for x in fr.values()]:
                continue
            if oid in ok_ids and isinstance(o, ArrObj) and o.mode == "sym":
                arr_written.add((oid, leaf))
                continue
            bad.append("%s%s" % (getattr(o, "name", oid), "." + ".".join(map(str, leaf)) if leaf else ""))
        v.ground(tag + ".frame.only_particle_arrays", not bad, "writes outside %s: %s" % (sorted(ok_ids.values()), bad or "none"))
        kk = eng.fresh("k_other", z3.IntSort())
        for (oid, leaf) in sorted(arr_written, key=str):
            a0 = eng._leaf_array(pre.mem.objs[oid], leaf)
            a1 = eng._leaf_array(s.mem.objs[oid], leaf)
            eng.oblige(s, "%s.%s.frame.index_i_only.%s.%s" % (tn, tag, ok_ids[oid], ".".join(map(str, leaf))),
                       z3.Implies(kk != i, z3.Select(a1, kk) == z3.Select(a0, kk)), "loop", node)
        B = Body(self, eng, pre, s, i, arr_written, tag)
        letters = classify(B) or []
        # continuing state: forget the written leaves, record the letters
        eng.havoc(st, arr_written, "loop_" + tag.replace(".", "_")[-24:])
        st.trace = st.trace + list(letters)
        return NORMAL


# ------------------------------------------------------------------ affine bodies (drift / kick / kick-then-drift)
def _atoms(term, i):
    out = {}
    stack = [term]
    seen = set()
    while stack:
        t = stack.pop()
        if t.get_id() in seen:
            continue
        seen.add(t.get_id())
        if z3.is_app(t) and t.decl().kind() == z3.Z3_OP_SELECT and t.arg(1).eq(i):
            out[t.get_id()] = t
            continue
        stack.extend(t.children())
    return list(out.values())


def _only_atoms_and_dt(term, ats, dt):
    """after replacing the element-i leaves by constants the term must be a ground expression in dt alone"""
    t = z3.simplify(z3.substitute(term, *[(a, z3.RealVal(1)) for a in ats])) if ats else term
    t = z3.simplify(z3.substitute(t, (dt, z3.RealVal(2))))
    return z3.is_rational_value(t) or z3.is_int_value(t)


def affine_updates(B, extra_consts=()):
    """For every array leaf written by the body: post value of element i as sum of coeff * (pre-state element-i leaf),
    coeff = c * dt^k with exact rational c (opword.coeff_of).  The decomposition is PROVED (`affine.<leaf>` obligation:
    post value == reconstructed affine form), so a non-affine body cannot slip through the coefficient probing.
    Returns {(array name, leaf): {(array name, leaf): (c, k)}}."""
    names = {av._a.id: nm for nm, av in B.ll.arrays.items()}
    leafname = {}
    for nm, av in B.ll.arrays.items():
        a = B.st_pre.mem.objs[av._a.id]
        for leaf in a.leaf_types:
            leafname[z3.Select(B.eng._leaf_array(a, leaf), B.i).get_id()] = (nm, leaf)
    res = {}
    for (oid, leaf) in sorted(B.written, key=str):
        term = z3.simplify(z3.Select(B.eng._leaf_array(B.st.mem.objs[oid], leaf), B.i))
        ats = _atoms(term, B.i)
        unknown = [a for a in ats if a.get_id() not in leafname]
        if unknown or not _only_atoms_and_dt(term, ats, B.dt):
            B.ground("affine.%s.%s" % (names[oid], ".".join(map(str, leaf))), False,
                     "post value of element i is not a combination of element-i leaves of the declared arrays and dt: %s"
                     % str(term)[:300])
            return None
        zero = [(a, z3.RealVal(0)) for a in ats]
        const = z3.simplify(z3.substitute(term, *zero)) if ats else term
        form = const
        ups = {}
        c0, k0 = opword.coeff_of(const, B.dt)
        if c0 != 0:
            ups[None] = (c0, k0)
        for a in ats:
            sub = [(b, z3.RealVal(1 if b.eq(a) else 0)) for b in ats]
            ct = z3.simplify(z3.substitute(term, *sub) - const)
            c, k = opword.coeff_of(ct, B.dt)
            if c != 0:
                ups[leafname[a.get_id()]] = (c, k)
            form = form + ct * a
        B.prove("affine.%s.%s" % (names[oid], ".".join(map(str, leaf))), term == form)
        res[(names[oid], leaf)] = ups
    return res


def kick_drift_letters(B, ups, pos_arr, vel_arr, acc_arr, drift="D", kick="I",
                       pos=("x", "y", "z"), vel=("vx", "vy", "vz"), acc=("ax", "ay", "az")):
    """Recognise   v += c1*dt*a  (kick, letter `kick`(c1)),   x += c2*dt*v  (drift, letter `drift`(c2))   or the kick
    followed by the drift with the UPDATED velocity ( x' = x + c2 dt (v + c1 dt a) ) from the proved affine forms.
    Ground obligations: same coefficient in the three components, unit coefficient on the leaf itself, no other source,
    cross term == c1*c2 (order of composition), nothing else written."""
    if ups is None:
        return [("?", None, 0)]
    letters = []
    targets = set(ups)
    kc = dc = None
    wrote_v = any((vel_arr, (f,)) in ups for f in vel)
    wrote_x = any((pos_arr, (f,)) in ups for f in pos)
    if wrote_v:
        cs = []
        ok = True
        for fv, fa in zip(vel, acc):
            u = dict(ups.get((vel_arr, (fv,)), {}))
            ok &= u.pop((vel_arr, (fv,)), None) == (Fraction(1), 0)
            ca = u.pop((acc_arr, (fa,)), None)
            ok &= ca is not None and ca[1] == 1 and not u
            cs.append(ca)
            targets.discard((vel_arr, (fv,)))
        ok &= len(set(cs)) == 1
        B.ground("kick.form", ok, "v' = v + c*dt*a in all three components: %s" % cs)
        if not ok:
            return [("?", None, 0)]
        kc = cs[0][0]
    if wrote_x:
        cs, cross = [], []
        ok = True
        for fx, fv, fa in zip(pos, vel, acc):
            u = dict(ups.get((pos_arr, (fx,)), {}))
            ok &= u.pop((pos_arr, (fx,)), None) == (Fraction(1), 0)
            cv = u.pop((vel_arr, (fv,)), None)
            ok &= cv is not None and cv[1] == 1
            cx = u.pop((acc_arr, (fa,)), None)
            ok &= not u
            cs.append(cv)
            cross.append(cx)
            targets.discard((pos_arr, (fx,)))
        ok &= len(set(cs)) == 1 and len(set(cross)) == 1
        B.ground("drift.form", ok, "x' = x + c*dt*v [+ cross*dt^2*a] in all three components: %s cross %s" % (cs, cross))
        if not ok:
            return [("?", None, 0)]
        dc = cs[0][0]
        if cross[0] is not None:
            good = kc is not None and cross[0] == (kc * dc, 2)
            B.ground("kick_then_drift.cross_term", good,
                     "x' depends on a with coefficient %s: must be kick(%s) then drift(%s) with the updated velocity" % (cross[0], kc, dc))
            if not good:
                return [("?", None, 0)]
            letters = [(kick, kc, 1), (drift, dc, 1)]
        elif kc is not None:
            # both written, drift uses the OLD velocity: drift first, then kick
            letters = [(drift, dc, 1), (kick, kc, 1)]
        else:
            letters = [(drift, dc, 1)]
    elif kc is not None:
        letters = [(kick, kc, 1)]
    B.ground("nothing_else_written", not targets, "other written leaves: %s" % sorted(targets, key=str))
    return letters


# ------------------------------------------------------------------ generic word helpers
def exponents_map(word, mapping):
    """letters -> algebra exponents by `mapping` {letter: generator | None (identity) | callable(c,k)->dict}"""
    out = []
    for (l, c, k) in word:
        if l.startswith("!") or l == "?":       # "?" = loop body not recognised: its own obligation has already failed
            continue
        if l not in mapping:
            raise ValueError("letter %s has no algebra interpretation here" % l)
        g = mapping[l]
        if g is None:
            continue
        x = g(c, k) if callable(g) else {g: c}
        if any(val != 0 for val in x.values()):
            out.append(x)
    return out


def force_fresh(word, movers, kicks, force="!reb_simulation_update_acceleration"):
    """every kick letter is preceded by a force evaluation with no position-changing letter in between"""
    bad, have = [], False
    for idx, (l, c, k) in enumerate(word):
        if l in movers and (c is None or c != 0):
            have = False
        elif l == force:
            have = True
        elif l in kicks and not have:
            bad.append(idx)
    return bad


# ------------------------------------------------------------------ simulation builder for the non-WHFast integrators
PLAIN_NOTES = ["reb_simulation_update_acceleration", "reb_simulation_error", "reb_simulation_warning",
               "reb_calculate_acceleration_var", "reb_tools_megno_deltad_delta", "reb_tools_megno_update",
               "reb_calculate_and_apply_jerk"]


def make_plain_sim(v, cfg, prims=None, notes=PLAIN_NOTES, recorders=None):
    """struct reb_simulation with symbolic dt, N >= 1, a symbolic particle array and a concrete configuration `cfg`
    ({'ri_eos.phi0': 'REB_EOS_LF', ...}); `prims` {fn: (letter, argidx)} become one-argument trace letters,
    `recorders` {fn: callable(eng, st, args, node)} are installed as they are.  Returns (r, rp, dt, N, parts)."""
    r, rp = v.struct_obj("struct reb_simulation", "r")
    dt = v.real("dt")
    N = v.int("N")
    v.assume(N >= 1)
    r.dt = dt
    r.N = N
    r.N_var = 0
    r.N_var_config = 0
    r.N_active = -1
    r.testparticle_type = 0
    r.calculate_megno = 0
    parts = v.array("struct reb_particle", N, "P")
    r.particles = parts.ptr
    for path, val in cfg.items():
        tgt = r
        ps = path.split(".")
        for p in ps[:-1]:
            tgt = getattr(tgt, p)
        if isinstance(val, str):
            val = v.enumc(val)
        setattr(tgt, ps[-1], val)
    opword.Recorder(v, dt, prims or {}, notes)
    for fn, rec in (recorders or {}).items():
        v.eng.trace_prims[fn] = rec
    return r, rp, dt, N, parts


def fmt(word, limit=400):
    out = []
    for (l, c, k) in word:
        if c is None:
            out.append(l)
        elif isinstance(c, tuple):
            out.append("%s(%s)" % (l, ",".join("%.17g" % float(x) for x in c)))
        else:
            out.append("%s(%.17g%s)" % (l, float(c), "" if k == 1 else "*dt^%d" % k))
    return " ".join(out)[:limit]


def physical(word):
    return [w for w in word if not w[0].startswith("!")]


def reduce_word(word, mergeable, cancel_only=("M",)):
    """merge laws X(a)X(b)=X(a+b), X(0)=id on the letters in `mergeable` (group property of the flow of ONE generator);
    letters in `cancel_only` (tuple-valued coefficients, e.g. the modified kick M(y,v) = exp(yB+v[B,[A,B]])) are only
    cancelled against their exact inverse X(-c) (exp(x)exp(-x) = id needs no commutation assumption).  Stack based, so
    cancellations cascade (... X(a) Y(b) Y(-b) X(-a) ... -> id)."""
    out = []
    for (l, c, k) in physical(word):
        if l in mergeable and c == 0:
            continue
        if out and out[-1][0] == l and out[-1][2] == k:
            if l in mergeable:
                s = out[-1][1] + c
                out.pop()
                if s != 0:
                    out.append((l, s, k))
                continue
            if l in cancel_only and isinstance(c, tuple) and tuple(-x for x in c) == tuple(out[-1][1]):
                out.pop()
                continue
        out.append((l, c, k))
    return out


def neg_word(word):
    """the same letters with dt -> -dt (every coefficient multiplies an odd power of dt)"""
    out = []
    for (l, c, k) in word:
        if c is None:
            out.append((l, c, k))
        elif isinstance(c, tuple):
            out.append((l, tuple(-x for x in c), k))
        else:
            out.append((l, -c if k % 2 == 1 else c, k))
    return out


# ------------------------------------------------------------------ modified kicks, order conditions modulo an ideal
def modkick_recorder(dt, letter_plain="I", letter_mod="M", yidx=1, vidx=2):
    """trace primitive for interaction steps with two arguments (y, v): I(y) when v == 0, else M((y, v)) with
    y = cy*dt and v = cv*dt^3 (exact rationals read from the real argument terms)"""
    def rec(eng, st, args, n):
        cy, ky = opword.coeff_of(args[yidx], dt)
        cv, kv = opword.coeff_of(args[vidx], dt)
        if cy != 0 and ky != 1:
            raise Unsupported("interaction step: y is not linear in dt")
        if cv == 0:
            st.trace = st.trace + [(letter_plain, cy, 1)]
        else:
            if kv != 3:
                raise Unsupported("interaction step: jerk weight is not cubic in dt")
            st.trace = st.trace + [(letter_mod, (cy, cv), 0)]
        return None
    return rec


def bab_commutator(w):
    """w * [B,[A,B]] = w * (2 BAB - BBA - ABB) as a free-algebra element"""
    return {"BAB": 2 * w, "BBA": -w, "ABB": -w}


def modkick_exponent(weight):
    def g(c, k):
        y, vv = c
        x = {"B": y}
        for wd, cf in bab_commutator(vv * weight).items():
            x[wd] = cf
        return x
    return g


def _nullspace_left(cols, nrows):
    """basis of {n : n . col = 0 for every col}, exact (Fractions); cols = list of vectors of length nrows"""
    # solve M^T n = 0 where M has the columns `cols`
    rows = [list(c) for c in cols]          # each row is one equation over n
    piv = []
    r = 0
    for c in range(nrows):
        p = None
        for k in range(r, len(rows)):
            if rows[k][c] != 0:
                p = k
                break
        if p is None:
            continue
        rows[r], rows[p] = rows[p], rows[r]
        inv = 1 / Fraction(rows[r][c])
        rows[r] = [x * inv for x in rows[r]]
        for k in range(len(rows)):
            if k != r and rows[k][c] != 0:
                f = rows[k][c]
                rows[k] = [a - f * b for a, b in zip(rows[k], rows[r])]
        piv.append(c)
        r += 1
        if r == len(rows):
            break
    free = [c for c in range(nrows) if c not in piv]
    basis = []
    for fcol in free:
        n = [Fraction(0)] * nrows
        n[fcol] = Fraction(1)
        for k, pc in enumerate(piv):
            n[pc] = -rows[k][fcol]
        basis.append(n)
    return basis


def check_order_mod(v, name, exps, s, target, ideal_gen=None, letters_b="B", gens="AB", K=4, on_log=False):
    """Like _words.check_order, but a bidegree class whose residual exceeds the rounding envelope is accepted if the
    residual lies in the two-sided ideal generated by `ideal_gen` (a homogeneous free-algebra element, e.g.
    [B,[B,[A,B]]]): every linear functional that annihilates span{u*gen*v} must vanish on the residual within the
    envelope.  One ground obligation per bidegree class; the detail says which test decided.
    K: relative uncertainty of the table literals in units of 2^-53 (literal_tolerance_factor), default 4.
    on_log: compare log(product) with the target (error Hamiltonian; see log_residuals) instead of the maps."""
    import itertools
    res = log_residuals(exps, target, s, letters_b, gens) if on_log else opword.order_residuals(exps, target, s, letters_b)
    classes = {}
    for (w, r, env) in res:
        key = (len(w), sum(1 for ch in w if ch in letters_b))
        classes.setdefault(key, []).append((w, r, env * Fraction(K, 4)))      # order_residuals' envelope is 4 ulp
    out = {}
    glen = len(next(iter(ideal_gen))) if ideal_gen else None
    alg = opword.FreeAlg(lambda w: True)
    for (L, j), items in sorted(classes.items()):
        bad = [t for t in items if abs(t[1]) > t[2]]
        worst = max(bad or items, key=lambda t: abs(t[1]))
        plain_ok = all(abs(r) <= env for (w, r, env) in items)
        if plain_ok or not ideal_gen or L < glen:
            v.ground("%s.bideg(L=%d,B=%d)" % (name, L, j), plain_ok,
                     "%d words; worst residual %.3e (envelope %.1e) at word %s" % (len(items), float(worst[1]), float(worst[2]), worst[0]))
            out[(L, j)] = plain_ok
            continue
        words = sorted(w for (w, r, env) in items)
        # all words of this bidegree (residual is zero on the ones not listed)
        allw = ["".join(t) for t in itertools.product(gens, repeat=L) if sum(1 for ch in t if ch in letters_b) == j]
        idx = {w: k for k, w in enumerate(allw)}
        R = [Fraction(0)] * len(allw)
        E = [Fraction(0)] * len(allw)
        for (w, r, env) in items:
            R[idx[w]], E[idx[w]] = r, env
        cols = []
        extra = L - glen
        for lu in range(extra + 1):
            for u in itertools.product(gens, repeat=lu):
                for w2 in itertools.product(gens, repeat=extra - lu):
                    el = alg.mul(alg.mul({"".join(u): Fraction(1)}, ideal_gen), {"".join(w2): Fraction(1)})
                    col = [Fraction(0)] * len(allw)
                    hit = False
                    for wd, cf in el.items():
                        if wd in idx:
                            col[idx[wd]] = cf
                            hit = True
                    if hit:
                        cols.append(col)
        ns = _nullspace_left(cols, len(allw)) if cols else [[Fraction(int(a == b)) for b in range(len(allw))] for a in range(len(allw))]
        ok = True
        worstf = (Fraction(0), Fraction(0))
        for n in ns:
            val = sum(a * b for a, b in zip(n, R))
            tol = sum(abs(a) * b for a, b in zip(n, E))
            if abs(val) > tol:
                ok = False
            if abs(val) - tol >= abs(worstf[0]) - worstf[1]:
                worstf = (val, tol)
        v.ground("%s.bideg(L=%d,B=%d)" % (name, L, j), ok,
                 "%d words; free-algebra residual %.3e at %s %s the ideal: %d annihilating functionals of "
                 "span{u[B,[B,[A,B]]]v} (dim %d of %d), worst functional value %.3e (envelope %.1e)"
                 % (len(items), float(worst[1]), worst[0], "is accounted for by" if ok else "is NOT in", len(ns),
                    len(allw) - len(ns), len(allw), float(worstf[0]), float(worstf[1])))
        out[(L, j)] = ok
    return out


# ------------------------------------------------------------------ tolerance from the precision of the table literals
def literal_tolerance_factor(relpath, name_regex, min_digits=13):
    """The coefficient tables are decimal literals.  A literal printed with d significant digits (a run of three or more
    trailing zeros is padding and stripped) pins the intended real number only to one unit of its last digit (published tables are
    rounded or truncated); literals with fewer than `min_digits`
    digits (0.5, 0.1867, 0.005) are taken as exact.  Returns K >= 4 such that every table literal matching `name_regex`
    in the REAL source file is within K * 2^-53 (relative) of the number it stands for, and the list of
    (table, literal, digits, relative uncertainty / 2^-53) for the evidence.  The order checks use K/4 times the
    4-ulp rounding envelope of engine.opword.order_residuals."""
    import os, re
    from engine import cfront
    src = open(os.path.join(cfront.REPO, relpath)).read()
    eps = Fraction(1, 2 ** 53)
    worst = Fraction(4)
    rows = []
    for m in re.finditer(r"static\s+const\s+double\s+(\w+)\s*(?:\[[^\]]*\])*\s*=\s*([^;]+);", src):
        nm, body = m.group(1), m.group(2)
        if not re.search(name_regex, nm):
            continue
        body = re.sub(r"//[^\n]*", "", body)
        for lit in re.findall(r"[-+]?\d*\.\d+(?:[eE][-+]?\d+)?|[-+]?\d+\.(?:[eE][-+]?\d+)?", body):
            mant = lit.lower().split("e")[0].lstrip("+-")
            exp10 = int(lit.lower().split("e")[1]) if "e" in lit.lower() else 0
            ip, fp = mant.split(".")
            if fp.endswith("000"):
                fp = fp.rstrip("0")          # padding (e.g. -0.060087981092461900000), not precision
            digs = (ip + fp).lstrip("0")
            if len(digs) < min_digits:
                continue
            val = abs(Fraction(lit))
            if val == 0:
                continue
            unit = Fraction(10) ** (exp10 - len(fp))
            k = unit / val / eps
            rows.append((nm, lit, len(digs), float(k)))
            if k > worst:
                worst = k
    import math
    return Fraction(max(4, math.ceil(worst))), rows


# ------------------------------------------------------------------ order conditions on the error Hamiltonian (log of the map)
def _keep_for_log(s, letters_b):
    def lim(j):
        return s[j - 1] if 1 <= j <= len(s) else (max(s) if j == 0 else s[-1])

    def keep(w):
        j = sum(1 for ch in w if ch in letters_b)
        return len(w) <= max([lim(jj) for jj in range(j, len(s) + 1)] + [lim(len(s))])
    return keep, lim


def free_log(alg, m):
    """log of a free-algebra element with constant term 1 (truncated by alg.keep)"""
    x = dict(m)
    c0 = x.pop("", Fraction(0))
    if c0 != 1:
        raise ValueError("log: constant term is not 1")
    res, term, k = {}, alg.one(), 1
    while True:
        term = alg.mul(term, x)
        if not term:
            break
        res = alg.add(res, term, Fraction((-1) ** (k + 1), k))
        k += 1
        if k > 60:
            break
    return res


def log_residuals(exponents, target, s, letters_b="B", gens="AB"):
    """log(prod exp(x_i)) - target on every word of bidegree (L <= s_j, j letters B): the error Hamiltonian has no term
    eps^j dt^(L-1) there.  For non-increasing s this is equivalent to engine.opword.order_residuals (agreement of the maps);
    for orders like (2,4) (SABAC1: eps dt^2 + eps^2 dt^4) only this formulation is right, because the map picks up products of
    the eps dt^2 error with B at bidegree (4, 2B).  Same 4-ulp first-order envelope as order_residuals."""
    keep, lim = _keep_for_log(s, letters_b)
    alg = opword.FreeAlg(keep)

    def run(exps):
        return free_log(alg, opword.word_product(alg, exps))
    got = run(exponents)

    def claimed(w):
        j = sum(1 for ch in w if ch in letters_b)
        return len(w) <= lim(j)
    import itertools
    allw = ("".join(t) for L in range(1, max(s) + 1) for t in itertools.product(gens, repeat=L))
    words = sorted({w for w in allw if claimed(w)} | {w for w in set(got) | set(target) if claimed(w)}, key=lambda x: (len(x), x))
    res = {w: got.get(w, 0) - target.get(w, 0) for w in words}
    env = {w: Fraction(0) for w in words}
    consts = sorted({abs(c) for x in exponents for c in x.values() if c != 0})
    eps = Fraction(1, 2 ** 53)
    for c0 in consts:
        if c0.denominator & (c0.denominator - 1) == 0 and c0.numerator in (1, 3, 5) and c0.denominator <= 8:
            continue
        pert = [{g: (c * (1 + eps) if abs(c) == c0 else c) for g, c in x.items()} for x in exponents]
        got2 = run(pert)
        for w in words:
            env[w] += abs(got2.get(w, 0) - got.get(w, 0))
    return [(w, res[w], env[w] * 4) for w in words]
