"""C18: the Python ctypes classes mirror the C structures; option names map to the C values of the same meaning.

Structural pack: finite, exhaustive ground obligations.
  C side   : clang's own record layouts (offset of every member, sizeof) of the real rebound.h, x86-64; member types
             and enumerator values from clang's AST of src/rebound.c.
  Py side  : what ctypes itself computed for the real modules of the tree under analysis (offset/size/type of every
             _fields_ entry), obtained by importing them under /venv/bin/python with PYTHONPATH=<tree>
             (tools/py_ctypes_dump.py), plus the property code read with Python's `ast`.
Per ctypes field, pairing is BY BYTE OFFSET (the bytes Python touches): there must be a C member at that offset
(.offset), of the same size (.size), of a compatible kind (.kind: integer width+signedness, float width, pointer and
pointee, function signature, nested struct, array length) and of the same name modulo leading underscores and the
explicit alias table below (.name).  Per C member: some Python field covers it (.mapped); per class: sizeof equal.
"""
import os, re, ast, json, subprocess, tempfile, hashlib
from engine.api import Pack
from engine import cfront

P = Pack("C18", ["src/rebound.c"], "python ctypes mirror and option tables vs C")
PACKS = [P]

PYTHON = os.environ.get("VERIF_PYTHON", "/venv/bin/python")
HELPER = os.path.join(os.path.dirname(os.path.dirname(os.path.abspath(__file__))), "tools", "py_ctypes_dump.py")

P.trust("clang 14 record layout dump (-fdump-record-layouts) for x86-64 SysV is the layout the compiler that builds "
        "librebound uses (same target ABI)")
P.trust("ctypes' own CField.offset/.size are the bytes Python reads/writes (CPython %s)" % PYTHON)
P.assume("Python side is obtained by importing the modules of the tree under analysis (PYTHONPATH=$VERIF_REPO); the "
         "shared library is only loaded because `import rebound` loads it, no library function is called")
P.assume("scalar sizes of the x86-64 SysV ABI: int/unsigned/enum 4, long/size_t/pointer 8, double 8")
P.assume("an enum-typed C member is compatible with a 32-bit ctypes integer iff every enumerator of that enum is "
         "representable in the ctypes type (c_uint needs all enumerators >= 0)")
P.assume("c_void_p on the Python side is compatible with any C object/function pointer (untyped access)")

# ------------------------------------------------------------------ explicit tables (each entry is an assumption)
# Python class -> C record, for the classes where neither the docstring ("abstraction of the C-struct X") nor the
# mechanical name rule (reb_ + snake_case(class name)) gives the record.
CLASS_MAP_EXPLICIT = {
    "rebound.simulation.CollisionS": "reb_collision",       # named CollisionS to avoid the exception class Collision
    "rebound.vectors.Vec3dBasic": "reb_vec3d",
    "rebound.simulation.timeval": "timeval",               # system struct (sys/time.h)
    "rebound.variation.Variation": "reb_variational_configuration",
}
# classes that deliberately mirror only a PREFIX of the C record ("other fields not needed")
PREFIX_ONLY = {"rebound.simulation.ServerData"}
# Python field name -> C member name(s) where they differ by more than leading underscores.
ALIASES = {
    ("rebound.simulation.Simulation", "gravity_ignore"): ["gravity_ignore_terms"],
    ("rebound.simulation.Simulation", "_display_view"): ["display_settings"],
    ("rebound.simulation.Simulation", "max_radius"): ["max_radius0", "max_radius1"],   # c_double*2 over two members
    ("rebound.simulation.Simulation", "_odes_warnings"): ["ode_warnings"],
    ("rebound.integrators.trace.IntegratorTRACE", "_N_allocated_additionalforces"): ["N_allocated_additional_forces"],
    ("rebound.integrators.ias15.IntegratorIAS15", "_map_allocated_n"): ["N_allocated_map"],
    ("rebound.simulationarchive.Simulationarchive", "_inf"): ["inf"],
}
for (_c, _f), _t in sorted(ALIASES.items()):
    P.assume("alias: %s.%s is the C member %s" % (_c.split(".")[-1], _f, "+".join(_t)))
for _c, _t in sorted(CLASS_MAP_EXPLICIT.items()):
    P.assume("class map: %s mirrors struct %s" % (_c, _t))
P.assume("ServerData mirrors only the leading members of struct reb_server_data (its source says so): total size and "
         "unmapped trailing members are not compared for it")
# kinds of objects the property names -> C records that must have a Python mirror
REQUIRED_RECORDS = ["reb_simulation", "reb_particle", "reb_orbit", "reb_rotation", "reb_ode",
                    "reb_variational_configuration", "reb_collision", "reb_simulationarchive",
                    "reb_integrator_sei", "reb_integrator_whfast", "reb_integrator_whfast512", "reb_integrator_saba",
                    "reb_integrator_ias15", "reb_integrator_mercurius", "reb_integrator_trace", "reb_integrator_janus",
                    "reb_integrator_eos", "reb_integrator_bs", "reb_binary_field_descriptor"]
# property whose string options name C functions: (class, property) -> stem of the C symbol
FUNCTION_OPTION_STEMS = {
    ("rebound.simulation.Simulation", "collision_resolve"): "reb_collision_resolve_",
    ("rebound.integrators.mercurius.IntegratorMercurius", "L"): "reb_integrator_mercurius_L_",
    ("rebound.integrators.trace.IntegratorTRACE", "S"): "reb_integrator_trace_switch_",
    ("rebound.integrators.trace.IntegratorTRACE", "S_peri"): "reb_integrator_trace_switch_peri_",
}
for (_c, _p), _s in sorted(FUNCTION_OPTION_STEMS.items()):
    P.assume("function option: %s.%s = \"<name>\" means the C function %s<name>" % (_c.split(".")[-1], _p, _s))


# ------------------------------------------------------------------ facts (computed once per process)
_FACTS = {}


def py_dump():
    if "py" not in _FACTS:
        env = dict(os.environ)
        env["PYTHONPATH"] = cfront.REPO
        env.pop("PYTHONHOME", None)
        p = subprocess.run([PYTHON, HELPER], capture_output=True, env=env,
                           cwd=tempfile.gettempdir())
        if p.returncode != 0:
            raise RuntimeError("py_ctypes_dump failed under %s with PYTHONPATH=%s:\n%s" %
                               (PYTHON, cfront.REPO, p.stderr.decode()[-1500:]))
        _FACTS["py"] = json.loads(p.stdout.decode())
    return _FACTS["py"]


def ctu():
    return cfront.tu("src/rebound.c")


def c_layouts():
    """clang's record layouts for EVERY complete record visible in rebound.c's translation unit (probe file that
    only includes the real rebound.c (hence the real headers) and takes sizeof of each record so that clang lays all
    of them out)."""
    if "lay" not in _FACTS:
        t = ctu()
        names = sorted(n for n in t.records if not n.startswith("#") and re.match(r"^(reb_\w+|timeval)$", n))
        d = tempfile.mkdtemp(prefix="c18probe-")
        try:
            src = os.path.join(d, "probe.c")
            with open(src, "w") as f:
                f.write('#include <sys/time.h>\n#include "rebound.c"\nunsigned long verif_sizes[] = {\n')
                for n in names:
                    f.write("  sizeof(%s %s),\n" % (t.record_kinds.get(n, "struct"), n))
                f.write("};\n")
            _FACTS["lay"] = cfront.record_layouts(src)
        finally:
            import shutil
            shutil.rmtree(d, True)
    return _FACTS["lay"]


def c_members(rec):
    """[(offset, name, CType, qualType)] of the direct members of a record: offsets from clang's layout, types from
    clang's AST (desugared)."""
    lay = c_layouts().get(rec)
    if lay is None:
        return None
    direct = [(o, n) for (o, _t, n, depth) in lay["fields"] if depth == 0]
    t = ctu()
    decl = t.records.get(rec)
    out = []
    if decl is None or [n for (n, _q, _i) in decl] != [n for (_o, n) in direct]:
        raise RuntimeError("layout/AST member lists differ for %s: %s vs %s" % (rec, direct, decl))
    for (o, n), (_n, q, _i) in zip(direct, decl):
        if t.typedefs.get(q) == q:       # typedef of an unnamed record (pthread_mutex_t): opaque record of that name
            out.append((o, n, cfront.CType("struct", name=q), q))
        else:
            out.append((o, n, t.ctype(q), q))
    return out


def c_sizeof(ct):
    if ct.kind == "int":
        return max(1, ct.bits // 8)
    if ct.kind == "enum":
        return 4
    if ct.kind == "float":
        return {32: 4, 64: 8}.get(ct.bits, 16)
    if ct.kind == "ptr":
        return 8
    if ct.kind == "array":
        return (ct.n or 0) * c_sizeof(ct.to)
    if ct.kind in ("struct", "union"):
        lay = c_layouts().get(ct.name)
        if lay is None:
            raise KeyError("no clang layout for record %s" % ct.name)
        return lay["size"]
    raise KeyError("sizeof %r" % (ct,))


def enumerators(ct):
    """{name: value} of an enum type: named enums from clang's AST; enums declared inline in a member declaration are
    located through the source position clang prints in the type, their enumerator VALUES come from clang."""
    t = ctu()
    if ct.name in t.enum_sets:
        return dict(t.enum_sets[ct.name])
    m = re.search(r"unnamed(?: enum)? at (.*?):(\d+):(\d+)\)", ct.name or "")
    if not m:
        return None
    path, line = m.group(1), int(m.group(2))
    txt = open(path).read().split("\n")
    body = "\n".join(txt[line - 1:])
    body = re.sub(r"//[^\n]*", "", body)
    body = re.sub(r"/\*.*?\*/", "", body, flags=re.S)
    a = body.index("{")
    b = body.index("}", a)
    names = re.findall(r"\b([A-Za-z_]\w*)\s*(?:=[^,}]*)?(?:,|$)", body[a + 1:b].strip() + ",")
    res = {}
    for n in names:
        if n not in t.enums:
            return None
        res[n] = t.enums[n]
    return res


def snake(name):
    s = re.sub(r"(?<=[a-z0-9])(?=[A-Z])", "_", name)
    return s.lower()


def class_map():
    """Python class -> (C record, how derived)."""
    if "cmap" in _FACTS:
        return _FACTS["cmap"]
    lay = c_layouts()
    res = {}
    for q, c in py_dump()["classes"].items():
        how = None
        m = re.search(r"C[- ]struct\s+`?(reb_\w+)", c["doc"] or "")
        if q in CLASS_MAP_EXPLICIT:
            rec, how = CLASS_MAP_EXPLICIT[q], "explicit table"
            if m and m.group(1) != rec:
                how = "explicit table CONTRADICTS docstring (%s)" % m.group(1)
        elif m:
            rec, how = m.group(1), "docstring"
        else:
            rec = None
            nm = c["name"]
            for cand in ("reb_" + snake(nm), "reb_" + nm.lower(), nm, "reb_" + snake(nm).replace("_", "")):
                if cand in lay:
                    rec, how = cand, "name rule"
                    break
        res[q] = (rec, how)
    _FACTS["cmap"] = res
    return res


# ------------------------------------------------------------------ kind compatibility
def split_args(s):
    out, depth, cur = [], 0, ""
    for ch in s:
        if ch == "(":
            depth += 1
        elif ch == ")":
            depth -= 1
        if ch == "," and depth == 0:
            out.append(cur.strip())
            cur = ""
        else:
            cur += ch
    if cur.strip():
        out.append(cur.strip())
    return out


def c_func_sig(ct):
    """(return CType, [param CTypes]) of a function / function-pointer type spelled by clang."""
    q = ct.name
    m = re.match(r"^(.*?)\(\*+\)\s*\((.*)\)$", q) or re.match(r"^(.*?)\((.*)\)$", q)
    if not m:
        return None
    t = ctu()
    ret = t.ctype(m.group(1).strip())
    args = [a for a in split_args(m.group(2)) if a != "void"]
    return ret, [t.ctype(a) for a in args]


def compat(ct, pd, where=""):
    """C type `ct` (engine CType) vs ctypes descriptor `pd`: (ok, reason)."""
    k = pd.get("k")
    if ct.kind == "void":
        return (k == "void", "C void vs %s" % k)
    if ct.kind == "int":
        if k != "int":
            return False, "C %r vs ctypes %s" % (ct, k)
        if ct.bits == 1:   # _Bool
            return (pd["bits"] == 8 and not pd["signed"]), "C _Bool vs %s" % pd.get("ctype")
        if pd["bits"] != ct.bits:
            return False, "width: C %r vs %s" % (ct, pd.get("ctype"))
        if bool(pd["signed"]) != bool(ct.signed):
            return False, "signedness: C %r (%s) vs %s" % (ct, ct.name, pd.get("ctype"))
        return True, ""
    if ct.kind == "enum":
        if k != "int" or pd["bits"] != 32:
            return False, "C enum vs %s" % (pd.get("ctype") or k)
        en = enumerators(ct)
        if en is None:
            return False, "enumerators of %s not found" % ct.name
        if not pd["signed"] and min(en.values()) < 0:
            return False, "enum %s has negative enumerators but the ctypes field is unsigned" % ct.name
        if max(en.values()) > (2 ** 31 - 1 if pd["signed"] else 2 ** 32 - 1):
            return False, "enumerator out of range"
        return True, ""
    if ct.kind == "float":
        return (k == "float" and pd["bits"] == ct.bits), "C %r vs %s" % (ct, pd.get("ctype") or k)
    if ct.kind == "ptr":
        if k == "func":
            if ct.to.kind != "func":
                return False, "C %r vs CFUNCTYPE" % (ct,)
            sig = c_func_sig(ct.to)
            if sig is None:
                return False, "cannot parse %s" % ct.to.name
            ret, args = sig
            ok, why = compat(ret, pd["res"])
            if not ok:
                return False, "return type: " + why
            if len(args) != len(pd["args"]):
                return False, "arity: C %d vs CFUNCTYPE %d" % (len(args), len(pd["args"]))
            for i, (a, b) in enumerate(zip(args, pd["args"])):
                ok, why = compat(a, b)
                if not ok:
                    return False, "parameter %d: %s" % (i, why)
            return True, ""
        if k != "ptr":
            return False, "C pointer vs ctypes %s" % k
        to = pd["to"]
        if to.get("k") == "void":
            return True, ""
        if ct.to.kind == "func":
            return False, "C function pointer vs typed data pointer"
        if ct.to.kind == "void":
            return (pd.get("charp") is None), "C void* vs typed pointer"
        ok, why = compat(ct.to, to)
        return ok, ("POINTEE: " + why) if not ok and not why.startswith("POINTEE") else why
    if ct.kind in ("struct", "union"):
        if k not in ("struct", "union"):
            return False, "C %r vs ctypes %s" % (ct, k)
        rec = class_map().get(pd["cls"], (None, None))[0]
        return (rec == ct.name), "C %r vs class %s (mirrors %s)" % (ct, pd["cls"], rec)
    if ct.kind == "array":
        if k != "array":
            return False, "C array vs ctypes %s" % k
        if pd["n"] != ct.n:
            return False, "array length: C %s vs %s" % (ct.n, pd["n"])
        return compat(ct.to, pd["elem"])
    return False, "unhandled C type %r" % (ct,)


# ------------------------------------------------------------------ layout comparison of one class
def compare_class(v, q):
    c = py_dump()["classes"][q]
    short = c["name"]
    rec, how = class_map()[q]
    v.ground("%s.maps_to_record" % short, rec is not None and rec in c_layouts() and "CONTRADICTS" not in (how or ""),
             "class %s -> struct %s (%s)" % (q, rec, how))
    if rec is None or rec not in c_layouts():
        return
    cm = c_members(rec)
    by_off = {}
    for (o, n, ct, qt) in cm:
        by_off.setdefault(o, (n, ct, qt))
    covered = set()
    for f in c["fields"]:
        fn, off, size, pd = f["name"], f["offset"], f["size"], f["type"]
        tag = "%s.%s" % (short, fn)
        targets = ALIASES.get((q, fn))
        v.ground(tag + ".not_bitfield", not f["bitfield"], "bit-fields are not used on the C side")
        if off not in by_off:
            v.ground(tag + ".offset", False, "ctypes offset %s: no member of struct %s starts there (C offsets %s)"
                     % (off, rec, [x for x in sorted(by_off) if abs(x - (off or 0)) <= 16]))
            continue
        cn, ct, qt = by_off[off]
        if targets and len(targets) > 1:
            # one ctypes array laid over consecutive C members
            ok_kind = pd.get("k") == "array" and pd.get("n") == len(targets)
            v.ground(tag + ".offset", True, "C member %s at %s" % (cn, off))
            esz = (size // len(targets)) if ok_kind else 0
            names, allok, why = [], ok_kind, "" if ok_kind else "not an array of %d" % len(targets)
            for i, tname in enumerate(targets):
                ent = by_off.get(off + i * esz)
                names.append(ent[0] if ent else None)
                if ent is None:
                    allok, why = False, "no C member at %d" % (off + i * esz)
                    continue
                covered.add(ent[0])
                if c_sizeof(ent[1]) != esz:
                    allok, why = False, "element %d size %d vs C %s size %d" % (i, esz, ent[0], c_sizeof(ent[1]))
                ok, w = compat(ent[1], pd["elem"]) if ok_kind else (False, why)
                if not ok:
                    allok, why = False, w
            v.ground(tag + ".size", allok and size == esz * len(targets), why or "size %s" % size)
            v.ground(tag + ".kind", allok, why)
            v.ground(tag + ".name", names == targets, "python %s[] over C members %s, alias table says %s" % (fn, names, targets))
            continue
        covered.add(cn)
        v.ground(tag + ".offset", True, "C member %s at %s" % (cn, off))
        csz = c_sizeof(ct)
        v.ground(tag + ".size", csz == size, "ctypes size %s vs C %s %s size %s" % (size, qt, cn, csz))
        ok, why = compat(ct, pd)
        pointee_only = (not ok) and why.startswith("POINTEE")
        v.ground(tag + ".kind", ok or pointee_only, "%s.%s vs C `%s %s`: %s" % (short, fn, qt, cn, why))
        if ct.kind == "ptr" and pd.get("k") == "ptr" and pd["to"].get("k") != "void":
            v.ground(tag + ".pointee", ok, "%s.%s vs C `%s %s`: %s" % (short, fn, qt, cn, why))
        want = targets[0] if targets else None
        name_ok = (cn == want) if want else (fn == cn or fn.lstrip("_") == cn)
        v.ground(tag + ".name", name_ok, "ctypes field %s (offset %s) lies on C member %s.%s%s"
                 % (fn, off, rec, cn, " (alias table: %s)" % want if want else ""))
    # every C member is covered by a Python field
    npy_end = max([f["offset"] + f["size"] for f in c["fields"]] or [0])
    for (o, n, ct, qt) in cm:
        if q in PREFIX_ONLY and o >= npy_end:
            continue
        v.ground("%s.c_member.%s.mapped" % (short, n), n in covered,
                 "C member %s.%s (offset %s) has no ctypes field at its offset" % (rec, n, o))
    if q not in PREFIX_ONLY:
        v.ground("%s.sizeof" % short, c["size"] == c_layouts()[rec]["size"],
                 "sizeof: ctypes %s vs C %s" % (c["size"], c_layouts()[rec]["size"]))
        v.ground("%s.alignment" % short, c["align"] == c_layouts()[rec]["align"],
                 "alignment: ctypes %s vs C %s" % (c["align"], c_layouts()[rec]["align"]))
    else:
        v.ground("%s.sizeof_prefix" % short, c["size"] <= c_layouts()[rec]["size"], "prefix mirror not larger than C")
    v.ground("%s.no_pack" % short, c["pack"] in (None, 0), "_pack_ = %s" % c["pack"])


def classes_where(pred):
    return sorted(q for q in py_dump()["classes"] if pred(q))


@P.task("layout.simulation")
def _(v):
    v.ground("package_from_tree", os.path.realpath(py_dump()["package_file"]).startswith(os.path.realpath(cfront.REPO) + os.sep),
             "imported %s, tree %s" % (py_dump()["package_file"], cfront.REPO))
    compare_class(v, "rebound.simulation.Simulation")


@P.task("layout.integrators")
def _(v):
    qs = classes_where(lambda q: q.startswith("rebound.integrators."))
    v.ground("classes_found", len(qs) >= 10, str(qs))
    for q in qs:
        compare_class(v, q)


@P.task("layout.objects")
def _(v):
    qs = classes_where(lambda q: not q.startswith("rebound.integrators.") and q != "rebound.simulation.Simulation")
    v.ground("classes_found", len(qs) >= 10, str(qs))
    for q in qs:
        compare_class(v, q)


@P.task("layout.coverage")
def _(v):
    d = py_dump()
    cm = class_map()
    mirrored = {}
    for q, (rec, how) in cm.items():
        mirrored.setdefault(rec, []).append(q)
    for rec in REQUIRED_RECORDS:
        v.ground("record.%s.has_python_mirror" % rec, rec in mirrored, "classes: %s" % mirrored.get(rec))
    for rec, qs in sorted((r, q) for r, q in mirrored.items() if r):
        v.ground("record.%s.single_mirror" % rec, len(qs) == 1, "mirrored by %s" % qs)
    # every module of the package that could define ctypes classes was importable (otherwise classes would be missed)
    for n, m in sorted(d["modules"].items()):
        if m["error"]:
            src = os.path.join(cfront.REPO, n.replace(".", "/") + ".py")
            txt = open(src).read() if os.path.exists(src) else ""
            v.ground("module.%s.no_ctypes_structures_missed" % n, not re.search(r"\((ctypes\.)?(Structure|Union)\)", txt),
                     "module not importable here (%s) and defines ctypes structures" % m["error"])
    # classes found at run time == classes found in the source text (nothing defined conditionally / missed)
    found = set()
    for n, m in sorted(d["modules"].items()):
        f = m["file"] or os.path.join(cfront.REPO, n.replace(".", "/") + ".py")
        if not f or not os.path.exists(f):
            continue
        for node in ast.walk(ast.parse(open(f).read())):
            if isinstance(node, ast.ClassDef) and any(
                    (isinstance(b, ast.Name) and b.id in ("Structure", "Union")) or
                    (isinstance(b, ast.Attribute) and b.attr in ("Structure", "Union")) for b in node.bases):
                found.add("%s.%s" % (n, node.name))
    for q in sorted(found | set(d["classes"])):
        v.ground("class.%s.seen_in_source_and_at_runtime" % q, q in found and q in d["classes"],
                 "in source: %s, at run time: %s" % (q in found, q in d["classes"]))


# ------------------------------------------------------------------ property code (python ast)
def class_ast(q):
    d = py_dump()
    c = d["classes"][q]
    f = d["modules"][c["module"]]["file"]
    tree = ast.parse(open(f).read())
    for node in ast.walk(tree):
        if isinstance(node, ast.ClassDef) and node.name == c["name"]:
            return node, f
    return None, f


def properties_of(cnode):
    """{name: {"get": FunctionDef, "set": FunctionDef|None}} from decorators @property / @x.setter."""
    props = {}
    for n in cnode.body:
        if isinstance(n, ast.FunctionDef):
            for dec in n.decorator_list:
                if isinstance(dec, ast.Name) and dec.id == "property":
                    props.setdefault(n.name, {})["get"] = n
                elif isinstance(dec, ast.Attribute) and dec.attr == "setter":
                    props.setdefault(n.name, {})["set"] = n
    return props


@P.task("clash.field_vs_property")
def _(v):
    d = py_dump()
    for q in sorted(d["classes"]):
        c = d["classes"][q]
        cnode, _f = class_ast(q)
        if cnode is None:
            v.ground("%s.class_source_found" % c["name"], False, q)
            continue
        props = properties_of(cnode)
        fields = {f["name"] for f in c["fields"]}
        for pn in sorted(props):
            v.ground("%s.%s.property_not_shadowed_by_field" % (c["name"], pn),
                     pn not in fields and c["attr_kinds"].get(pn) == "property",
                     "class attribute %s.%s is a %s at run time; also listed in _fields_: %s"
                     % (c["name"], pn, c["attr_kinds"].get(pn), pn in fields))
            # attributes self._x read/written by the property must exist as fields (or be plain python attributes
            # that the property itself creates: names ending in 'fp' keep callbacks alive)
            for role, fn in sorted(props[pn].items()):
                for node in ast.walk(fn):
                    if isinstance(node, ast.Attribute) and isinstance(node.value, ast.Name) and node.value.id == "self" \
                            and node.attr.startswith("_") and not node.attr.startswith("__"):
                        a = node.attr
                        if a in fields or a in c["attr_kinds"]:
                            continue
                        if isinstance(node.ctx, ast.Store) or any(
                                isinstance(s, ast.Attribute) and isinstance(s.ctx, ast.Store) and s.attr == a
                                for s in ast.walk(cnode)):
                            # python-side attribute created by a setter/method of the class: allowed only if it is not
                            # the backing store of an option (checked by the roundtrip task)
                            continue
                        v.ground("%s.%s.%ster_attribute_%s_exists" % (c["name"], pn, role, a), False,
                                 "self.%s is neither a ctypes field nor assigned anywhere in class %s" % (a, c["name"]))


# ------------------------------------------------------------------ option tables vs enums, round trip
def analyse_getter(fn):
    field = dname = None
    shape_ok = False
    for n in ast.walk(fn):
        if isinstance(n, ast.Assign) and isinstance(n.value, ast.Attribute) and isinstance(n.value.value, ast.Name) \
                and n.value.value.id == "self" and field is None:
            field = n.value.attr
            var = n.targets[0].id if isinstance(n.targets[0], ast.Name) else None
        if isinstance(n, ast.For) and isinstance(n.iter, ast.Call) and isinstance(n.iter.func, ast.Attribute) \
                and n.iter.func.attr == "items" and isinstance(n.iter.func.value, ast.Name):
            dname = n.iter.func.value.id
            # for name, _i in D.items(): if i == _i: return name
            if isinstance(n.target, ast.Tuple) and len(n.target.elts) == 2 and len(n.body) == 1 and isinstance(n.body[0], ast.If):
                kname, vname = n.target.elts[0].id, n.target.elts[1].id
                t = n.body[0]
                if isinstance(t.test, ast.Compare) and len(t.test.ops) == 1 and isinstance(t.test.ops[0], ast.Eq) \
                        and {getattr(t.test.left, "id", None), getattr(t.test.comparators[0], "id", None)} == {var, vname} \
                        and len(t.body) == 1 and isinstance(t.body[0], ast.Return) and getattr(t.body[0].value, "id", None) == kname:
                    shape_ok = True
    return field, dname, shape_ok


def eval_norm(expr, value):
    """Evaluate a chain of str methods applied to the variable `value` (value.lower().replace(" ","") ...)."""
    if isinstance(expr, ast.Name) and expr.id == "value":
        return value
    if isinstance(expr, ast.Call) and isinstance(expr.func, ast.Attribute) and expr.func.attr in ("lower", "upper", "replace", "strip") \
            and all(isinstance(a, ast.Constant) for a in expr.args) and not expr.keywords:
        base = eval_norm(expr.func.value, value)
        return getattr(base, expr.func.attr)(*[a.value for a in expr.args])
    raise ValueError("unsupported normalisation " + ast.dump(expr))


def analyse_setter(fn):
    """-> dict(int_target, str_target, dname, norm=[expr...]) for setters of the shape
         if isinstance(value,int): self.F = T(value)   elif isinstance(value, basestring): value = norm(value);
         if value in D: self.T = D[value] else: raise"""
    res = {"int_target": None, "str_target": None, "dname": None, "norm": [], "else_raises": False}
    for n in ast.walk(fn):
        if isinstance(n, ast.If) and isinstance(n.test, ast.Call) and getattr(n.test.func, "id", None) == "isinstance" \
                and isinstance(n.test.args[1], ast.Name):
            kind = n.test.args[1].id
            if kind == "int":
                for s in n.body:
                    if isinstance(s, ast.Assign) and isinstance(s.targets[0], ast.Attribute) and getattr(s.targets[0].value, "id", None) == "self":
                        res["int_target"] = s.targets[0].attr
            elif kind in ("basestring", "str"):
                for s in n.body:
                    if isinstance(s, ast.Assign) and isinstance(s.targets[0], ast.Name) and s.targets[0].id == "value":
                        res["norm"].append(s.value)
                    if isinstance(s, ast.If) and isinstance(s.test, ast.Compare) and isinstance(s.test.ops[0], ast.In) \
                            and getattr(s.test.left, "id", None) == "value" and isinstance(s.test.comparators[0], ast.Name):
                        res["dname"] = s.test.comparators[0].id
                        for b in s.body:
                            if isinstance(b, ast.Assign) and isinstance(b.targets[0], ast.Attribute) and isinstance(b.value, ast.Subscript) \
                                    and getattr(b.value.value, "id", None) == res["dname"]:
                                res["str_target"] = b.targets[0].attr
                        last = s
                        while isinstance(last, ast.If) and last.orelse:
                            last = last.orelse[-1] if not (len(last.orelse) == 1 and isinstance(last.orelse[0], ast.If)) else last.orelse[0]
                        res["else_raises"] = isinstance(last, ast.Raise) or (isinstance(last, ast.If) is False and isinstance(last, ast.Raise))
    return res


def option_properties():
    """[(class q, property, getter info, setter info)] for every property whose getter maps a field through a table."""
    out = []
    d = py_dump()
    for q in sorted(d["classes"]):
        cnode, f = class_ast(q)
        if cnode is None:
            continue
        for pn, gs in sorted(properties_of(cnode).items()):
            if "get" not in gs:
                continue
            field, dname, shape = analyse_getter(gs["get"])
            if dname is None:
                continue
            out.append((q, pn, (field, dname, shape), analyse_setter(gs["set"]) if gs.get("set") else None))
    return out


def table_of(q, dname):
    d = py_dump()
    mod = d["classes"][q]["module"]
    t = d["tables"].get("%s.%s" % (mod, dname))
    return None if t is None or t["kind"] != "dict" else t["items"]


def norm_name(s):
    return re.sub(r"[^A-Z0-9]", "", s.upper())


def common_prefix(names):
    p = os.path.commonprefix(list(names))
    return p[:p.rfind("_") + 1]


def c_member_for_field(q, fname):
    """C member (name, CType) lying at the offset of ctypes field `fname` of class q."""
    c = py_dump()["classes"][q]
    rec = class_map()[q][0]
    f = [x for x in c["fields"] if x["name"] == fname]
    if not f or rec is None:
        return None
    for (o, n, ct, qt) in c_members(rec):
        if o == f[0]["offset"]:
            return n, ct
    return None


@P.task("options.tables_vs_enums")
def _(v):
    ops = option_properties()
    v.ground("option_properties_found", len(ops) >= 9, str([(q.split(".")[-1], p) for q, p, _g, _s in ops]))
    used = set()
    for (q, pn, (field, dname, shape), st) in ops:
        short = py_dump()["classes"][q]["name"]
        tag = "%s.%s" % (short, pn)
        items = table_of(q, dname)
        v.ground(tag + ".table_found", items is not None, "table %s" % dname)
        if items is None:
            continue
        used.add("%s.%s" % (py_dump()["classes"][q]["module"], dname))
        # the C member the getter really reads: through the ctypes field if the attribute is a field
        cm = c_member_for_field(q, field)
        v.ground(tag + ".backing_field_is_ctypes_field", cm is not None,
                 "getter reads self.%s which is %s" % (field, "not in _fields_ of " + short if cm is None else "C member " + cm[0]))
        if cm is None:
            # fall back to the C member of the property's own name so that the table is still compared
            rec = class_map()[q][0]
            cm = next(((n, ct) for (_o, n, ct, _q) in c_members(rec) if n == pn), None)
            if cm is None:
                continue
        cname, ct = cm
        v.ground(tag + ".c_member_has_property_name", cname == pn, "field %s lies on C member %s" % (field, cname))
        en = enumerators(ct) if ct.kind == "enum" else None
        v.ground(tag + ".c_member_is_enum", en is not None, "C member %s has type %r" % (cname, ct))
        if not en:
            continue
        pre = common_prefix(en)
        byn = {}
        for n_, val in en.items():
            byn.setdefault(norm_name(n_[len(pre):]), []).append((n_, val))
        for key, val in items:
            k = norm_name(key)
            cands = byn.get(k, [])
            v.ground("%s[%s].same_meaning_enumerator_exists" % (tag, key), len(cands) == 1,
                     "%s[%r]: enumerators %s* normalising to %s: %s" % (dname, key, pre, k, cands))
            if len(cands) == 1:
                v.ground("%s[%s].value" % (tag, key), cands[0][1] == val,
                         "%s[%r] = %s but %s = %s" % (dname, key, val, cands[0][0], cands[0][1]))
        keys = {norm_name(k) for k, _ in items}
        for n_, val in sorted(en.items(), key=lambda kv: kv[1]):
            v.ground("%s.enumerator.%s.has_name" % (tag, n_), norm_name(n_[len(pre):]) in keys,
                     "C enumerator %s=%s has no entry in %s" % (n_, val, dname))
    # every str->int table of the package is attached to some option property (none escapes the comparison)
    for name, t in sorted(py_dump()["tables"].items()):
        if t["kind"] == "dict":
            v.ground("table.%s.compared" % name, name in used, "table not reached from any option property")


@P.task("options.roundtrip")
def _(v):
    for (q, pn, (field, dname, shape), st) in option_properties():
        c = py_dump()["classes"][q]
        short = c["name"]
        tag = "%s.%s" % (short, pn)
        items = table_of(q, dname) or []
        fields = {f["name"] for f in c["fields"]}
        v.ground(tag + ".getter_shape", shape, "getter is `i=self.%s; for name,_i in %s.items(): if i==_i: return name`" % (field, dname))
        v.ground(tag + ".has_setter", st is not None, "")
        if st is None:
            continue
        v.ground(tag + ".setter_uses_same_table", st["dname"] == dname, "getter %s, setter %s" % (dname, st["dname"]))
        tgt = st["str_target"]
        if tgt == pn:       # setter re-enters itself with the integer: resolved through the int branch
            tgt = st["int_target"]
        v.ground(tag + ".setter_stores_where_getter_reads", tgt == field, "setter stores to self.%s, getter reads self.%s" % (tgt, field))
        v.ground(tag + ".store_is_ctypes_field", tgt in fields and c["attr_kinds"].get(tgt) == "CField",
                 "self.%s is %s" % (tgt, c["attr_kinds"].get(tgt, "a plain python attribute (never reaches C)")))
        v.ground(tag + ".property_reachable", c["attr_kinds"].get(pn) == "property",
                 "%s.%s is a %s at run time: the setter code is never executed" % (short, pn, c["attr_kinds"].get(pn)))
        v.ground(tag + ".unknown_name_rejected", st["else_raises"], "setter raises for names not in the table")
        vals = [val for _k, val in items]
        table = dict(items)
        for key, val in items:
            try:
                nk = key
                for e in st["norm"]:
                    nk = eval_norm(e, nk)
                stored = table.get(nk)
                back = next((k for k, x in items if x == stored), None)
                v.ground("%s[%s].reads_back_as_set" % (tag, key), stored == val and back == key,
                         "set %r -> normalised %r -> stored %s -> reads back %r" % (key, nk, stored, back))
            except ValueError as ex:
                v.ground("%s[%s].reads_back_as_set" % (tag, key), False, str(ex))
        v.ground(tag + ".table_injective", len(set(vals)) == len(vals), str(items))


def c_function(name):
    """FunctionDecl (with body) of a library function, searched in the TU whose text defines it."""
    src = os.path.join(cfront.REPO, "src")
    for fn in sorted(os.listdir(src)):
        if fn.endswith(".c") and fn not in ("glad.c",) and re.search(r"\b%s\s*\(" % re.escape(name), open(os.path.join(src, fn), errors="replace").read()):
            t = cfront.tu("src/" + fn)
            if name in t.functions:
                return t, t.functions[name]
    return None, None


@P.task("options.named_functions")
def _(v):
    d = py_dump()
    seen = 0
    for q in sorted(d["classes"]):
        cnode, _f = class_ast(q)
        if cnode is None:
            continue
        c = d["classes"][q]
        short = c["name"]
        rec = class_map()[q][0]
        for pn, gs in sorted(properties_of(cnode).items()):
            st = gs.get("set")
            if st is None:
                continue
            # branches `if func == "<name>": ... clibrebound.<symbol> ...`
            for node in ast.walk(st):
                if not (isinstance(node, ast.If) and isinstance(node.test, ast.Compare) and isinstance(node.test.ops[0], ast.Eq)
                        and isinstance(node.test.comparators[0], ast.Constant) and isinstance(node.test.comparators[0].value, str)):
                    continue
                optname = node.test.comparators[0].value
                syms, stores, via = [], [], []
                for s in node.body:
                    for x in ast.walk(s):
                        if isinstance(x, ast.Attribute) and getattr(x.value, "id", None) == "clibrebound":
                            syms.append(x.attr)
                        if isinstance(x, ast.Attribute) and getattr(x.value, "id", None) == "self" and isinstance(x.ctx, ast.Store):
                            stores.append(x.attr)
                stem = FUNCTION_OPTION_STEMS.get((q, pn))
                tag = "%s.%s[%s]" % (short, pn, optname)
                if not syms:
                    if stem is not None:
                        # a named option of a function-valued property that stores something other than a C function of the
                        # library (e.g. a NULL pointer, which the C side reads as "use the default")
                        seen += 1
                        v.ground(tag + ".names_c_function_of_same_meaning", False,
                                 "option %r of %s.%s references no C symbol; expected %s" % (optname, short, pn, stem + optname))
                    continue
                seen += 1
                v.ground(tag + ".stem_listed", stem is not None, "no stem listed for %s.%s" % (q, pn))
                if stem is None:
                    continue
                setters = [s for s in syms if not s.startswith(stem)]
                target = [s for s in syms if s.startswith(stem)]
                v.ground(tag + ".names_c_function_of_same_meaning", target == [stem + optname] or set(target) == {stem + optname},
                         "option %r uses C symbols %s; expected %s" % (optname, target, stem + optname))
                if not target:
                    continue
                tu_, fdecl = c_function(target[0])
                v.ground(tag + ".c_function_defined", fdecl is not None and fdecl.get("storageClass") != "static",
                         "%s not defined as an external function in src/*.c" % target[0])
                # C member that receives it
                cmem = None
                if stores:
                    v.ground(tag + ".store_is_ctypes_field", stores[0] in {f["name"] for f in c["fields"]}, "self.%s" % stores[0])
                    cmem = c_member_for_field(q, stores[0])
                    v.ground(tag + ".stored_in_member_of_property_name", cmem is not None and cmem[0] == pn,
                             "stored through self.%s into C member %s" % (stores[0], cmem and cmem[0]))
                elif setters:
                    # stored by a C setter function: its body must assign its function argument to r-><pn>
                    tu2, sdecl = c_function(setters[0])
                    ok = False
                    if sdecl is not None:
                        for x in _walk(sdecl):
                            if x.get("kind") == "BinaryOperator" and x.get("opcode") == "=":
                                l = x["inner"][0]
                                if l.get("kind") == "MemberExpr" and l.get("name") == pn and l.get("isArrow"):
                                    ok = True
                    v.ground(tag + ".c_setter_assigns_member", ok, "%s assigns r->%s" % (setters[0], pn))
                    cmem = next(((n, ct) for (_o, n, ct, _q) in c_members(rec) if n == pn), None)
                else:
                    v.ground(tag + ".stored_somewhere", False, "no store found")
                if fdecl is not None and cmem is not None:
                    ftype = fdecl["type"]["qualType"]
                    mt = cmem[1]
                    msig = c_func_sig(mt.to) if mt.kind == "ptr" and mt.to.kind == "func" else None
                    fsig = c_func_sig(ctu().ctype(ftype)) if True else None
                    same = msig is not None and fsig is not None and repr(msig) == repr(fsig)
                    v.ground(tag + ".signature_matches_member", same, "function `%s` vs member %s `%s`" % (ftype, cmem[0], mt.to.name if mt.kind == "ptr" else mt))
    v.ground("named_function_options_found", seen >= 9, "found %d" % seen)


def _walk(n):
    yield n
    for c in n.get("inner", ()) or ():
        if isinstance(c, dict):
            yield from _walk(c)


# ------------------------------------------------------------------ binary error/warning codes
@P.task("options.binary_codes")
def _(v):
    d = py_dump()
    t = ctu()
    en = t.enum_sets.get("reb_simulation_binary_error_codes")
    v.ground("enum_found", bool(en), "enum reb_simulation_binary_error_codes")
    if not en:
        return
    lists = {k: x for k, x in d["tables"].items() if x["kind"] == "list" and k.endswith(".BINARY_WARNINGS")}
    v.ground("table_found", "rebound.simulation.BINARY_WARNINGS" in lists, str(sorted(lists)))
    for name, tab in sorted(lists.items()):
        if name != "rebound.simulation.BINARY_WARNINGS":
            v.ground("%s.is_the_same_table" % name, tab["items"] == lists.get("rebound.simulation.BINARY_WARNINGS", {}).get("items"), "")
            continue
        byval = {}
        for n_, val in en.items():
            byval.setdefault(val, []).append(n_)
        seenv = set()
        for ent in tab["items"]:
            major, val, msg = ent[0], ent[1], ent[2]
            cands = byval.get(val, [])
            v.ground("code[%s].c_enumerator_exists" % val, len(cands) == 1, "value %s: %s" % (val, cands))
            seenv.add(val)
            if len(cands) == 1:
                n_ = cands[0]
                is_err = "_ERROR_" in n_
                v.ground("code[%s].severity" % val, bool(major) == is_err, "%s is treated as %s by python" % (n_, "error" if major else "warning"))
                # meaning: the distinguishing words of the enumerator occur in the python message
                words = [w for w in n_.replace("REB_SIMULATION_BINARY_", "").split("_")[1:] if w]
                syn = {"NOFILE": ["cannot read binary file"], "VERSION": ["version"], "POINTERS": ["pointers"], "PARTICLES": ["particle"],
                       "FILENOTOPEN": ["file was closed"], "OUTOFRANGE": ["out of range"], "SEEK": ["seek"], "FIELD": ["field"],
                       "INTEGRATOR": ["integrator"], "CORRUPTFILE": ["corrupt"], "OLD": ["old"]}
                hit = any(any(s in msg.lower() for s in syn.get(w, [w.lower()])) for w in words) if words else True
                v.ground("code[%s].message_matches_enumerator" % val, hit, "%s <-> %r" % (n_, msg))
        for n_, val in sorted(en.items(), key=lambda kv: kv[1]):
            if val != 0:
                v.ground("enumerator.%s.reported_by_python" % n_, val in seenv, "C code %s=%s has no python message" % (n_, val))
            v.ground("enumerator.%s.single_bit" % n_, val == 0 or (val & (val - 1)) == 0, "python tests codes with `warnings & value`")
P.assume("binary code messages: the python message is matched to the C enumerator by a keyword per enumerator "
         "(synonym table in options.binary_codes); the texts themselves are not compared")


# ------------------------------------------------------------------ binary field descriptor
@P.task("descriptor.binary_field_descriptor")
def _(v):
    q = "rebound.binary_field_descriptor.BinaryFieldDescriptor"
    v.ground("class_present", q in py_dump()["classes"], q)
    if q not in py_dump()["classes"]:
        return
    compare_class(v, q)
    # python reads the list as (BinaryFieldDescriptor*3).in_dll(...,"reb_binary_field_descriptor_list") and walks it
    # until name == b"end": the C array must be of that element type and be terminated by an "end" entry
    t = ctu()
    g = t.globals.get("reb_binary_field_descriptor_list")
    v.ground("list_symbol_declared", g is not None and "struct reb_binary_field_descriptor" in g["type"]["qualType"],
             g["type"]["qualType"] if g else "not declared")
    to = cfront.tu("src/output.c")
    gd = to.globals.get("reb_binary_field_descriptor_list")
    names = []
    if gd is not None:
        for x in _walk(gd):
            if x.get("kind") == "StringLiteral":
                names.append(x.get("value", "").strip('"'))
    v.ground("list_terminated_by_end_entry", bool(names) and names[-1] == "end", "last name literal: %r of %d" % (names[-1:] , len(names)))
    v.ground("list_end_entry_unique", names.count("end") == 1, "")
    en = None
    for (n, ct, _i) in [(n, t.ctype(qt), i) for (n, qt, i) in t.records["reb_binary_field_descriptor"]]:
        if n == "dtype":
            en = enumerators(ct)
    v.ground("dtype_enumerators_found", bool(en), str(en))


# ---------------------------------------------------------------------------------------------- Variation.lrescale
@P.task("variation.lrescale_addresses_own_configuration")
def _(v):
    """A Python Variation object is a COPY of one element of sim.var_config[]; its lrescale property must read and write the live C
    element that describes the same variational set.  Sets have different sizes (a test-particle variation occupies one particle,
    a full one N_real), so the element is identified by its `index` member, not by arithmetic on the index.
    Structural contract on the AST of rebound/variation.py: getter and setter (and the helper methods of the class they call)
    locate the element by a comparison `<config>.index == self.index` inside a loop over range(sim.N_var_config), and do not
    compute a subscript of var_config from self.index arithmetically."""
    path = os.path.join(cfront.REPO, "rebound", "variation.py")
    mod = ast.parse(open(path).read())
    cls = next((n for n in ast.walk(mod) if isinstance(n, ast.ClassDef) and n.name == "Variation"), None)
    v.ground("class_found", cls is not None, "")
    if cls is None:
        return
    methods = {f.name: [] for f in cls.body if isinstance(f, ast.FunctionDef)}
    for f in cls.body:
        if isinstance(f, ast.FunctionDef):
            methods[f.name].append(f)
    props = methods.get("lrescale", [])
    v.ground("getter_and_setter_found", len(props) == 2, "definitions of lrescale: %d" % len(props))

    def closure(fn, seen=None):
        seen = seen or set()
        out = [fn]
        for n in ast.walk(fn):
            if isinstance(n, ast.Call) and isinstance(n.func, ast.Attribute) and isinstance(n.func.value, ast.Name) \
                    and n.func.value.id == "self" and n.func.attr in methods and n.func.attr not in seen:
                seen.add(n.func.attr)
                for g in methods[n.func.attr]:
                    out += closure(g, seen)
        return out
    for fn in props:
        kind = "setter" if any(isinstance(d, ast.Attribute) and d.attr == "setter" for d in fn.decorator_list) else "getter"
        nodes = [n for g in closure(fn) for n in ast.walk(g)]
        by_index = [n for n in nodes if isinstance(n, ast.Compare) and len(n.ops) == 1 and isinstance(n.ops[0], ast.Eq)
                    and {ast.unparse(n.left).split(".")[-1], ast.unparse(n.comparators[0]).split(".")[-1]} == {"index"}
                    and "self.index" in (ast.unparse(n.left), ast.unparse(n.comparators[0]))]
        loops = [n for n in nodes if isinstance(n, ast.For) and "N_var_config" in ast.unparse(n.iter)]
        arith = [ast.unparse(n) for n in nodes if isinstance(n, ast.BinOp) and "self.index" in ast.unparse(n)]
        v.ground("lrescale.%s.element_found_by_matching_index" % kind, bool(by_index) and bool(loops),
                 "comparisons with self.index: %d, loops over N_var_config: %d" % (len(by_index), len(loops)))
        v.ground("lrescale.%s.no_index_arithmetic" % kind, not arith, "arithmetic on self.index: %s" % arith[:3])
