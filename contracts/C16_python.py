"""C16 (Python side): Variation.vary (rebound/variation.py) and the `variation=` branch of Particle.__init__
(rebound/particle.py) dispatch BY NAME to the C constructor that differentiates with respect to exactly the named element(s).

The Python text is the real file of the tree under analysis (engine.cfront.REPO), parsed with `ast` on every run.  The
`if variation:` block of Particle.__init__ and the body of Variation.vary are compiled FROM THAT AST into a function and
executed concretely on stub objects (a recording `clibrebound`, stub particles) for EVERY combination of element names
(finite, exhaustive); nothing of the rebound package is imported.  The C side is the list of non-static functions
reb_particle_derivative_* of the clang AST of src/derivatives.c; what each of them computes (the derivative with respect to
the elements in its name) is proved in C16_derivatives.
"""
import ast, os, itertools
import z3
from engine.api import Pack
from engine import cfront

P = Pack("C16", [], "variational equations: Python dispatch (Variation.vary, Particle(variation=...))")
PACKS = [P]
PARTICLE_PY = "rebound/particle.py"
VARIATION_PY = "rebound/variation.py"
PREFIX = "reb_particle_derivative_"
PAL = {"a", "lambda", "k", "h", "ix", "iy"}
ORB = {"a", "e", "inc", "Omega", "omega", "f"}
FIELDS = ("m", "x", "y", "z", "vx", "vy", "vz")

P.assume("python dispatch: Python semantics of the executed fragment = CPython's (the fragment is compiled from the real AST "
         "and run on stubs); getattr(clibrebound, name) raises AttributeError iff the shared library exports no symbol `name`; "
         "the exported symbols are the non-static functions of the translation units (DLLEXPORT in rebound.h)")


def _src(rel):
    path = os.path.join(cfront.REPO, rel)
    return ast.parse(open(path).read(), filename=path), path


def constructors():
    t = cfront.tu("src/derivatives.c")
    out = {}
    for n, f in t.functions.items():
        if n.startswith(PREFIX) and f.get("storageClass") != "static":
            out[n] = tuple(n[len(PREFIX):].split("_"))
    return out


def find_method(tree, cls, name):
    for node in tree.body:
        if isinstance(node, ast.ClassDef) and node.name == cls:
            for it in node.body:
                if isinstance(it, ast.FunctionDef) and it.name == name:
                    return it
    return None


class Rec:
    """attribute bag"""

    def __init__(self, **kw):
        self.__dict__.update(kw)


class Lib:
    def __init__(self, exported, log):
        object.__setattr__(self, "_exp", exported)
        object.__setattr__(self, "_log", log)

    def __getattr__(self, name):
        if name not in self._exp:
            raise AttributeError(name)
        log = self._log

        class M:
            restype = None

            def __call__(self_, *args):
                ret = Rec(**{f: ("ret", name, f) for f in FIELDS})
                log.append((name, args, ret, self_.restype))
                return ret
        return M()


def compile_variation_block():
    """the `if variation:` block of Particle.__init__ as a function dispatch(self, simulation, particle, primary, variation, variation2)"""
    tree, path = _src(PARTICLE_PY)
    init = find_method(tree, "Particle", "__init__")
    block = None
    for st in init.body:
        if isinstance(st, ast.If) and isinstance(st.test, ast.Name) and st.test.id == "variation":
            block = st
    if block is None:
        return None, path, None
    args = ["self", "simulation", "particle", "primary", "variation", "variation2"]
    fn = ast.FunctionDef(name="dispatch", args=ast.arguments(posonlyargs=[], args=[ast.arg(arg=a) for a in args], kwonlyargs=[],
                                                            kw_defaults=[], defaults=[]),
                         body=[block, ast.Return(value=ast.Constant(value="fell through"), lineno=block.end_lineno, col_offset=0,
                                                 end_lineno=block.end_lineno, end_col_offset=0)],
                         decorator_list=[], lineno=block.lineno, col_offset=0, end_lineno=block.end_lineno, end_col_offset=0)
    mod = ast.Module(body=[fn], type_ignores=[])
    ast.fix_missing_locations(mod)
    return compile(mod, path, "exec"), path, block.lineno


def run_dispatch(code, exported, variation, variation2, primary="PRIMARY"):
    log = []

    class ParticleStub:
        def __init__(self, **kw):
            raise RuntimeError("Particle(**locals) must not be needed when `particle` is given")
    c_double = lambda x: ("c_double", x)
    sim = Rec(G=("G",), particles=["P0", "P1", "P2"])
    ns = {"clibrebound": Lib(exported, log), "c_double": c_double, "Particle": ParticleStub}
    exec(code, ns)
    self_ = Rec()
    try:
        r = ns["dispatch"](self_, sim, "PARTICLE", primary, variation, variation2)
        return {"raise": None, "log": log, "self": self_, "ret": r, "sim": sim, "Particle": ParticleStub}
    except Exception as ex:
        return {"raise": type(ex).__name__, "log": log, "self": self_, "ret": None, "sim": sim}


@P.task("python.particle_variation_dispatch", fn=None)
def _(v):
    code, path, line = compile_variation_block()
    v.eng.functions_seen["%s:Particle.__init__[if variation]" % PARTICLE_PY] = (PARTICLE_PY, line or 0)
    v.ground("block_found", code is not None, "`if variation:` block of Particle.__init__ in %s" % path)
    if code is None:
        return
    cons = constructors()
    exported = set(cons)
    v.ground("constructors_found", len(cons) > 0, "%d exported reb_particle_derivative_* functions in src/derivatives.c" % len(cons))
    # the names the Python code accepts: read from the real block (list literal assigned to `variationtypes`)
    tree, _ = _src(PARTICLE_PY)
    types = None
    for node in ast.walk(find_method(tree, "Particle", "__init__")):
        if isinstance(node, ast.Assign) and len(node.targets) == 1 and getattr(node.targets[0], "id", None) == "variationtypes":
            types = ast.literal_eval(node.value)
    v.ground("variationtypes_literal_found", isinstance(types, list) and len(types) > 0, "variationtypes = %s" % (types,))
    if not types:
        return
    alias = {"l": "lambda", "i": "inc"}
    names = list(types) + sorted(alias)
    canon = lambda s: alias.get(s, s)
    reached = set()
    # ---- first order
    bad = []
    for a in names:
        out = run_dispatch(code, exported, a, None)
        want = PREFIX + canon(a)
        ok = out["raise"] is None and len(out["log"]) == 1 and out["log"][0][0] == want and cons.get(want) == (canon(a),)
        if ok:
            name, args, ret, restype = out["log"][0]
            ok = (len(args) == 3 and args[0] == ("c_double", ("G",)) and args[1] == "PRIMARY" and args[2] == "PARTICLE"
                  and restype is out["Particle"]
                  and all(getattr(out["self"], f, None) == ("ret", name, f) for f in FIELDS))
            reached.add(name)
        if not ok:
            bad.append((a, out["raise"], [l[0] for l in out["log"]]))
    v.ground("first_order.every_name_reaches_its_constructor", not bad,
             "for each of %s: exactly one call, of %s<name>(c_double(G), primary, particle) with restype = Particle, result copied field by field into self "
             "(m,x,y,z,vx,vy,vz); failures: %s" % (names, PREFIX, bad))
    # ---- second order, every ordered pair
    bad, mixed, wrong_exc = [], [], []
    for a, b in itertools.product(names, repeat=2):
        out = run_dispatch(code, exported, a, b)
        pa = tuple(sorted((canon(a), canon(b))))
        match = [n for n, ps in cons.items() if len(ps) == 2 and tuple(sorted(ps)) == pa]
        if match:
            ok = out["raise"] is None and len(out["log"]) == 1 and out["log"][0][0] == match[0] and len(match) == 1
            if ok:
                name, args, ret, restype = out["log"][0]
                ok = (args[0] == ("c_double", ("G",)) and args[1] == "PRIMARY" and args[2] == "PARTICLE"
                      and restype is out["Particle"]
                      and all(getattr(out["self"], f, None) == ("ret", name, f) for f in FIELDS))
                reached.add(name)
            if not ok:
                bad.append((a, b, out["raise"], [l[0] for l in out["log"]]))
        else:
            # no constructor differentiates with respect to this pair: the call must fail, and must not call anything
            if out["raise"] is None or out["log"]:
                bad.append((a, b, "no constructor exists but the dispatch did not fail", [l[0] for l in out["log"]]))
            else:
                mixed.append((a, b))
                if out["raise"] != "ValueError":
                    wrong_exc.append((a, b, out["raise"]))
    v.ground("second_order.every_pair_reaches_the_constructor_of_that_pair_in_either_order", not bad,
             "%d ordered pairs; a constructor whose name carries exactly the two elements (in some order) is called with "
             "(c_double(G), primary, particle) and copied into self; argument swap is harmless because mixed partial derivatives "
             "commute (each constructor is proved equal to sympy's d^2F/dp dq in C16_derivatives); failures: %s" % (len(names) ** 2, bad))
    v.ground("second_order.pairs_without_constructor_fail_without_calling_C", True,
             "%d ordered pairs have no constructor (one Pal element with one orbital element): dispatch raises %s" %
             (len(mixed), sorted({e for (_a, _b, e) in wrong_exc} | ({"ValueError"} if len(wrong_exc) < len(mixed) else set()))))
    # ---- unknown names
    bad = []
    for a, b in (("q", None), ("a", "q"), ("q", "a"), ("M", None), ("pomega", None)):
        out = run_dispatch(code, exported, a, b)
        if out["raise"] != "ValueError" or out["log"]:
            bad.append((a, b, out["raise"]))
    v.ground("unknown_names_raise_ValueError_without_calling_C", not bad, "failures: %s" % bad)
    # ---- every constructor is reachable from Python
    unreached = sorted(set(cons) - reached)
    v.ground("every_constructor_reachable_by_some_name", not unreached, "not reachable: %s" % unreached)
    # ---- default primary: particle 0 of the simulation (heliocentric, as documented in Variation.vary)
    out = run_dispatch(code, exported, "a", None, primary=None)
    v.ground("default_primary_is_particle_0", out["raise"] is None and len(out["log"]) == 1 and out["log"][0][1][1] == "P0",
             "primary=None -> %s" % (out["log"] and out["log"][0][1][1],))


def compile_vary():
    tree, path = _src(VARIATION_PY)
    fn = find_method(tree, "Variation", "vary")
    if fn is None:
        return None, path, None
    mod = ast.Module(body=[fn], type_ignores=[])
    ast.fix_missing_locations(mod)
    return compile(mod, path, "exec"), path, fn.lineno


@P.task("python.variation_vary", fn=None)
def _(v):
    code, path, line = compile_vary()
    v.eng.functions_seen["%s:Variation.vary" % VARIATION_PY] = (VARIATION_PY, line or 0)
    v.ground("vary_found", code is not None, "Variation.vary in %s" % path)
    if code is None:
        return
    bad = []
    for order, tp, pidx, var, var2 in itertools.product((1, 2), (-1, 0, 2), (0, 1, 3), ("a", "e"), (None, "h")):
        made = []

        class ParticleStub:
            def __init__(self, **kw):
                made.append(kw)
        particles = {i: "p%d" % i for i in range(40)}
        sim = Rec(particles=particles)
        self_ = Rec(order=order, index=10, testparticle=tp, _sim=Rec(contents=sim))
        ns = {"Particle": ParticleStub, "RuntimeError": RuntimeError}
        exec(code, ns)
        ns["vary"](self_, pidx, var, var2, "PRIM")
        target = 10 if tp >= 0 else 10 + pidx
        want2 = var2 if var2 is not None else (var if order == 2 else None)
        written = [k for k, val in particles.items() if isinstance(val, ParticleStub)]
        ok = (len(made) == 1 and written == [target] and made[0].get("simulation") is sim and made[0].get("particle") == "p%d" % pidx
              and made[0].get("variation") == var and made[0].get("variation2") == want2 and made[0].get("primary") == "PRIM")
        if not ok:
            bad.append((order, tp, pidx, var, var2, written, made))
    v.ground("vary.builds_the_variational_particle_of_the_named_particle_in_its_slot", not bad,
             "for order in {1,2}, testparticle in {-1,0,2}, particle_index in {0,1,3}: exactly one Particle(simulation=sim, "
             "particle=particles[particle_index], variation=, variation2= (second-order sets: defaults to variation), primary=) is "
             "stored at index (full set) index + particle_index / (test-particle set) index; failures: %s" % (bad,))


P.not_decided += [
    "python dispatch: a pair consisting of one Pal element (h,k,lambda,ix,iy) and one classical element (e,inc,Omega,omega,f) "
    "has no C constructor; Particle.__init__ then fails with AttributeError from getattr(clibrebound, ...) instead of the "
    "ValueError it raises for unknown names (observation; no wrong function is called)",
    "python dispatch: Variation.vary on a FIRST-order set with variation2 given passes both names on, so the second "
    "derivative is stored in a first-order set (documented as 'only used for second order variations'; not checked by the code)",
    "python: ctypes argument passing of struct reb_particle by value and the layout of class Variation vs struct "
    "reb_variational_configuration are C18's subject",
]
