"""C08: integrate() time / step-size / status contract (rebound.c: reb_check_exit, reb_simulation_integrate[_raw]).

R-mode (doubles as reals).  reb_simulation_step is replaced by a STEP CONTRACT per integrator class

   fixed   :  t' = t + dt,  dt' = dt,  dt_last_done' = dt   (JANUS: dt_last_done' = dt_last_done -- it never sets it)
   adaptive:  t' = t + delta, delta = 0 or sign(delta) = sign(dt), |delta| <= |dt|, sign(dt') = sign(dt),
              dt_last_done' = delta when delta != 0

`stepcontract.*` prove the fixed contract on the real part1/part2 (+ the write frame of everything else that
reb_simulation_step calls, computed from the AST of the whole library).  The core tasks execute the REAL
reb_check_exit (loop free once status is not PAUSED/SCREENSHOT) and the REAL loop of reb_simulation_integrate_raw
under loop invariants.
"""
import ast as pyast
import os
import z3
from engine.api import Pack
from engine.mem import Ptr, NULL, Opaque, FuncRef, StructObj
from engine.csym import as_int, as_real, as_bool, const_int
from engine import cfront

FILES = ["src/rebound.c", "src/integrator.c", "src/integrator_leapfrog.c", "src/integrator_sei.c"]
P = Pack("C08", FILES, "integrate(): time, step size, status")
PACKS = [P]
P.assume("machine arithmetic treated as mathematical (doubles as reals): 'lands exactly on tmax' is exact in R; the "
         "floating-point coincidence (t+dt) vs tmax is what the code's 1e-12 tolerance is for (not decided here)")
P.assume("INFINITY is a distinguished value that no finite tmax equals; dt != 0 (dt == 0 never terminates: precondition)")
P.assume("status on entry is not PAUSED/SCREENSHOT (their waiting loops need the visualisation thread: C19)")
P.assume("user callbacks (heartbeat, collision resolve, pre/post_timestep_modifications, additional_forces) and a step may "
         "change r->status only to an exit status 1..7 (reb_simulation_stop -> USER, halting collision -> COLLISION, "
         "heartbeat distance checks -> ESCAPE/ENCOUNTER) and may change N; they do not write t, dt, dt_last_done, "
         "exact_finish_time (frame of the library code itself: task stepcontract.frame)")
P.assume("reb_simulation_error_message_waiting is modelled as an arbitrary 0/1 answer per call (errors may be queued during "
         "a step); task check_exit.error_waiting.* relate it to r->messages")
# the adaptive step contract used by the integrate-loop tasks is proved on the real IAS15 / BS / MERCURIUS / TRACE part2 in C08_adaptive.py
P.not_decided += [
    "floating-point coincidences (t+dt) vs tmax and the size of the rounding error of the last step (R-mode)",
    "termination of the loop for adaptive integrators (Zeno sequences of shrinking steps)",
    "PAUSED / SCREENSHOT / SINGLE_STEP waiting loops of reb_check_exit (need a second thread; C19)",
    "EOS, WHFAST512 fixed-step contract on their real part2 (WHFAST512 is not compiled; MERCURIUS / TRACE are in C08_adaptive)",
    "bitwise equality of split integrations beyond: same number of steps, same dt value, prologue/epilogue frame "
    "(the step map itself is a deterministic function of the state: C02/C09)",
]

RUNNING, LAST_STEP, SUCCESS = "REB_STATUS_RUNNING", "REB_STATUS_LAST_STEP", "REB_STATUS_SUCCESS"
CHECK, RAW, INTEGRATE, STEP = "reb_check_exit", "reb_simulation_integrate_raw", "reb_simulation_integrate", "reb_simulation_step"
ERRW = "reb_simulation_error_message_waiting"


def absr(x):
    return z3.If(x >= 0, x, -x)


class S:
    pass


from fractions import Fraction
E12 = z3.RealVal(Fraction(1e-12))       # the double literals of the code (exact binary values)
E200 = z3.RealVal(Fraction(1e-200))
INF = z3.Real("INFINITY")      # R-mode stand-in for the macro INFINITY: a distinguished value no finite tmax equals


def mk(v, integrator=None):
    """symbolic simulation for reb_check_exit / integrate_raw"""
    s = S()
    s.v = v
    r, rp = v.struct_obj("struct reb_simulation", "r")
    s.r, s.rp = r, rp
    s.t, s.dt, s.tmax = v.real("t"), v.real("dt"), v.real("tmax")
    s.status, s.N, s.exact = v.int("status"), v.int("N"), v.int("exact_finish_time")
    r.t, r.dt, r.status, r.N, r.exact_finish_time = s.t, s.dt, s.status, s.N, s.exact
    s.dld = v.real("dt_last_done")
    r.dt_last_done = s.dld
    s.steps0 = v.int("steps_done")
    r.steps_done = s.steps0
    s.N_odes = v.int("N_odes")
    r.N_odes = s.N_odes
    s.integ = v.int("integrator")
    r.integrator = s.integ if integrator is None else v.enumc(integrator)
    v.assume(s.N >= 0, s.N_odes >= 0)
    r.simulationarchive_filename = NULL
    r.server_data = NULL
    r.display_data = NULL
    s.err = []

    def errw(eng, st, args, n):
        e = eng.fresh("error_waiting", z3.IntSort())
        st.assume(z3.Or(e == 0, e == 1))
        s.err.append(e)
        return e
    v.contract(ERRW, errw)
    v.contract("reb_simulation_synchronize", lambda eng, st, args, n: None)      # frame: stepcontract.frame
    v.contract("reb_simulation_warning", lambda eng, st, args, n: None)
    v.contract("reb_particle_check_testparticles", lambda eng, st, args, n: eng.fresh("tp_warn", z3.IntSort()))
    v.contract("__builtin_inff", lambda eng, st, args, n: INF)
    v.eng.havoc_calls |= {"signal", "usleep", "pthread_mutex_lock", "pthread_mutex_unlock"}
    s.E = lambda name: v.enumc(name)

    def paused_inv(L):
        """waiting loop of reb_check_exit: a status that is not PAUSED/SCREENSHOT is left alone; a paused one can only
        become SIGINT (the GUI thread that un-pauses is not modelled: C19)"""
        cur = L.eng.read(L.st, Ptr(rp.obj, ("status",)))
        old = L.eng.read(L.entry, Ptr(rp.obj, ("status",)))
        paused = z3.Or(old == s.E("REB_STATUS_PAUSED"), old == s.E("REB_STATUS_SCREENSHOT"))
        return [("status_kept_unless_paused", z3.Or(cur == old, z3.And(paused, cur == s.E("REB_STATUS_SIGINT"))))]
    v.loop(CHECK, 0, invariant=paused_inv)
    return s


def lfd_now(s):
    """current value of the caller's last_full_dt cell (if-merging replaces memory objects: look the id up again)"""
    return s.v.st.mem.objs[s.lfd.id].value


def fld(s, L, name):
    return L.eng.read(L.st, Ptr(s.rp.obj, (name,)))


def exit_status(c):
    return z3.And(1 <= c, c <= 7)


def havoc_status(eng, st, rp, tag):
    """an exit condition may have been raised: status' = status or one of the exit statuses 1..7"""
    p = Ptr(rp.obj, rp.path + ("status",))
    old = eng.read(st, p)
    c = eng.fresh("status_after_" + tag, z3.IntSort())
    st.assume(z3.Or(c == old, exit_status(c)))
    eng.write(st, p, c)


def heartbeat_contract(eng, st, args, n):
    """reb_run_heartbeat: user heartbeat + distance checks (tasks heartbeat.*): only r->status is written"""
    havoc_status(eng, st, args[0], "heartbeat")
    return None


def step_contract(kind, sets_dld=True):
    def apply(eng, st, args, n):
        rp = args[0]
        rd = lambda f: eng.read(st, Ptr(rp.obj, rp.path + (f,)))
        wr = lambda f, val: eng.write(st, Ptr(rp.obj, rp.path + (f,)), val)
        t, dt, dld = rd("t"), rd("dt"), rd("dt_last_done")
        if kind == "fixed":
            wr("t", t + dt)
            if sets_dld is True:
                wr("dt_last_done", dt)
            elif sets_dld is not False:
                wr("dt_last_done", z3.If(sets_dld, dt, dld))
        else:
            d = eng.fresh("delta", z3.RealSort())
            dn = eng.fresh("dt_new", z3.RealSort())
            st.assume(z3.Or(d == 0, z3.And(d * dt > 0, absr(d) <= absr(dt))))
            st.assume(dn * dt > 0)
            wr("t", t + d)
            wr("dt", dn)
            wr("dt_last_done", z3.If(d != 0, d, dld))
        wr("steps_done", rd("steps_done") + 1)
        nn = eng.fresh("N_after_step", z3.IntSort())
        st.assume(nn >= 0)
        wr("N", nn)
        havoc_status(eng, st, rp, "step")
        g = eng.global_object(st, "reb_sigint")
        sg = eng.fresh("sigint", z3.IntSort())
        st.assume(sg >= 0)
        eng.write(st, Ptr(g.id, ()), sg)
        return None
    return apply


# =====================================================================================================
# reb_check_exit: one call, case analysis
# =====================================================================================================
def check_setup(v, **kw):
    s = mk(v, **kw)
    s.lfd0 = v.real("last_full_dt")
    s.lfd, s.lfdp = v.cell("double", "last_full_dt", s.lfd0)
    v.assume(s.dt != 0, s.tmax != INF)
    v.assume(z3.Or(s.status == s.E(RUNNING), s.status == s.E(LAST_STEP), z3.And(0 <= s.status, s.status <= 7)))
    return s


def no_particles(s, N=None):
    N = s.N if N is None else N
    return z3.And(N == 0, z3.Or(s.N_odes == 0, s.r.integrator != s.E("REB_INTEGRATOR_BS")))


@P.task("check_exit.noop", fn=CHECK)
def _(v):
    """tmax == t on entry: returns SUCCESS (>= 0) without touching t, dt, last_full_dt -- for either value of
    exact_finish_time, either sign of dt."""
    s = check_setup(v)
    v.assume(s.tmax == s.t, s.status == s.E(RUNNING), s.N > 0)
    ret = v.call(CHECK, s.rp, s.tmax, s.lfdp)
    v.assume(s.err[0] == 0)
    v.prove("returns_success", ret == s.E(SUCCESS))
    v.prove("t_unchanged", s.r.t == s.t)
    v.prove("dt_unchanged", s.r.dt == s.dt)
    v.prove("last_full_dt_unchanged", lfd_now(s) == s.lfd0)
    v.prove("N_unchanged", s.r.N == s.N)


@P.task("check_exit.direction", fn=CHECK)
def _(v):
    """dt points towards tmax (or t == tmax) on entry  =>  on return dt still has the same sign, t is untouched, and if
    the call asks for another step (ret < 0) with exact_finish_time==1 then that step cannot pass tmax:
    sign*(t + dt') <= sign*tmax."""
    s = check_setup(v)
    sg = z3.If(s.dt > 0, z3.RealVal(1), z3.RealVal(-1))
    v.assume(sg * (s.tmax - s.t) >= 0)
    ret = v.call(CHECK, s.rp, s.tmax, s.lfdp)
    v.prove("dt_keeps_sign", s.r.dt * s.dt > 0)
    v.prove("t_untouched", s.r.t == s.t)
    v.prove("dt_changed_only_to_remaining_interval", z3.Or(s.r.dt == s.dt, s.r.dt == s.tmax - s.t))
    v.prove("exact.next_step_does_not_pass_tmax", z3.Implies(z3.And(s.exact == 1, ret < 0),
                                                             z3.Or(sg * (s.t + s.r.dt) < sg * s.tmax, s.t + s.r.dt == s.tmax)))
    v.prove("inexact.dt_never_changed", z3.Implies(s.exact != 1, s.r.dt == s.dt))


@P.task("check_exit.last_step", fn=CHECK)
def _(v):
    """exact_finish_time==1, RUNNING, the next full step would reach or pass tmax (t != tmax):
    status := LAST_STEP, dt := tmax - t, last_full_dt := dt_last_done (unless that is 0: first step is the last).
    After ONE fixed step (t += dt) the next call returns SUCCESS with t == tmax exactly."""
    s = check_setup(v)
    sg = z3.If(s.dt > 0, z3.RealVal(1), z3.RealVal(-1))
    v.assume(s.exact == 1, s.status == s.E(RUNNING), s.N > 0, s.t != s.tmax, sg * (s.t + s.dt) >= sg * s.tmax, sg * (s.tmax - s.t) > 0)
    ret = v.call(CHECK, s.rp, s.tmax, s.lfdp)
    v.assume(s.err[0] == 0)
    r = s.r
    v.prove("asks_for_last_step", z3.And(ret == s.E(LAST_STEP), r.status == s.E(LAST_STEP)))
    v.prove("dt_is_remaining_interval", r.dt == s.tmax - s.t)
    v.prove("full_dt_saved", lfd_now(s) == z3.If(s.dld != 0, s.dld, s.lfd0))
    # one fixed step (step contract), then the next check
    r.t = r.t + r.dt
    r.dt_last_done = r.dt
    ret2 = v.call(CHECK, s.rp, s.tmax, s.lfdp)
    v.assume(s.err[1] == 0)
    v.prove("then.lands_on_tmax", r.t == s.tmax)
    v.prove("then.success", ret2 == s.E(SUCCESS))
    v.prove("then.saved_full_dt_kept", lfd_now(s) == z3.If(s.dld != 0, s.dld, s.lfd0))


@P.task("check_exit.last_step_tolerance", fn=CHECK)
def _(v):
    """exact_finish_time==1 and status LAST_STEP (the last step has been taken, possibly shortened by an adaptive
    integrator): SUCCESS iff |t-tmax| < 1e-12*|tmax| (absolute 1e-12 when 1e-12*|tmax| < 1e-200) or t == tmax;
    otherwise another step with dt = tmax - t, or back to RUNNING when a full step fits again."""
    s = check_setup(v)
    sg = z3.If(s.dt > 0, z3.RealVal(1), z3.RealVal(-1))
    v.assume(s.exact == 1, s.status == s.E(LAST_STEP), s.N > 0, sg * (s.tmax - s.t) >= 0)
    ret = v.call(CHECK, s.rp, s.tmax, s.lfdp)
    v.assume(s.err[0] == 0)
    r = s.r
    tol = z3.If(absr(s.tmax) * E12 < E200, E12, absr(s.tmax) * E12)
    fits = sg * (s.t + s.dt) < sg * s.tmax
    close = z3.Or(s.t == s.tmax, absr(s.t - s.tmax) < tol)
    v.prove("success_iff_within_tolerance", (ret == s.E(SUCCESS)) == z3.And(z3.Not(fits), close))
    v.prove("success_within_1e-12_relative", z3.Implies(z3.And(ret == s.E(SUCCESS), absr(s.tmax) >= z3.RealVal("1e-187")),
                                                         absr(s.t - s.tmax) <= z3.RealVal("1e-12") * absr(s.tmax)))
    v.prove("else_another_shortened_step", z3.Implies(z3.And(z3.Not(fits), z3.Not(close)),
                                                      z3.And(ret == s.E(LAST_STEP), r.dt == s.tmax - s.t)))
    v.prove("back_to_running_when_full_step_fits", z3.Implies(fits, z3.And(ret == s.E(RUNNING), r.dt == s.dt)))
    v.prove("last_full_dt_untouched", lfd_now(s) == s.lfd0)


@P.task("check_exit.inexact", fn=CHECK)
def _(v):
    """exact_finish_time != 1: SUCCESS iff sign*(t - tmax) >= 0 (at or past the target); nothing is modified."""
    s = check_setup(v)
    sg = z3.If(s.dt > 0, z3.RealVal(1), z3.RealVal(-1))
    v.assume(s.exact != 1, s.status == s.E(RUNNING), s.N > 0)
    ret = v.call(CHECK, s.rp, s.tmax, s.lfdp)
    v.assume(s.err[0] == 0)
    r = s.r
    v.prove("success_iff_at_or_past_target", (ret == s.E(SUCCESS)) == (sg * (s.t - s.tmax) >= 0))
    v.prove("else_keeps_running", z3.Or(ret == s.E(SUCCESS), ret == s.E(RUNNING)))
    v.prove("nothing_modified", z3.And(r.t == s.t, r.dt == s.dt, lfd_now(s) == s.lfd0))


@P.task("check_exit.status_precedence", fn=CHECK)
def _(v):
    """complete description of the returned status (derived from the enum meaning, compared with the code):
       no particles (and no ODE-only BS run)   -> NO_PARTICLES      (wins over everything)
       an error message is queued              -> GENERIC_ERROR     (wins over an exit status set during the step)
       status already >= 0 (ESCAPE, ENCOUNTER, USER, SIGINT, COLLISION set by the previous step / heartbeat)
                                               -> returned unchanged at this, the first, check after it was set
       otherwise the time logic decides (SUCCESS / RUNNING / LAST_STEP); tmax == INFINITY never finishes by time."""
    s = mk(v)
    s.lfd0 = v.real("last_full_dt")
    s.lfd, s.lfdp = v.cell("double", "last_full_dt", s.lfd0)
    v.assume(s.dt != 0)
    v.assume(z3.Or(s.status == s.E(RUNNING), s.status == s.E(LAST_STEP), z3.And(0 <= s.status, s.status <= 7)))
    ret = v.call(CHECK, s.rp, s.tmax, s.lfdp)
    err = s.err[0]
    r = s.r
    v.prove("returns_r_status", ret == r.status)
    v.prove("no_particles_first", z3.Implies(no_particles(s), ret == s.E("REB_STATUS_NO_PARTICLES")))
    v.prove("then_error", z3.Implies(z3.And(z3.Not(no_particles(s)), err == 1), ret == s.E("REB_STATUS_GENERIC_ERROR")))
    v.prove("then_pending_exit_status", z3.Implies(z3.And(z3.Not(no_particles(s)), err == 0, s.status >= 0), ret == s.status))
    v.prove("pending_exit_status.time_state_untouched", z3.Implies(z3.Or(s.status >= 0, err == 1),
                                                                   z3.And(r.t == s.t, r.dt == s.dt, lfd_now(s) == s.lfd0)))
    v.prove("otherwise_time_logic", z3.Implies(z3.And(z3.Not(no_particles(s)), err == 0, s.status < 0),
                                               z3.Or(ret == s.E(SUCCESS), ret == s.E(RUNNING), ret == s.E(LAST_STEP))))
    v.prove("infinite_target_never_succeeds", z3.Implies(z3.And(z3.Not(no_particles(s)), err == 0, s.status < 0, s.tmax == INF),
                                                         z3.And(ret == s.status, r.dt == s.dt)))
    v.prove("ode_only_bs_run_continues", z3.Implies(z3.And(s.N == 0, s.N_odes > 0, r.integrator == s.E("REB_INTEGRATOR_BS"), err == 0, s.status >= 0),
                                                    ret == s.status))
    v.prove("t_never_written", r.t == s.t)
    v.prove("N_never_written", r.N == s.N)


@P.task("check_exit.error_waiting.no_messages", fn=ERRW)
def _(v):
    r, rp = v.struct_obj("struct reb_simulation", "r")
    r.messages = NULL
    ret = v.call(ERRW, rp)
    v.prove("returns_0", ret == 0)


# =====================================================================================================
# the loop of reb_simulation_integrate_raw
# =====================================================================================================
def integrate_setup(v, kind, sg, sets_dld=True):
    s = mk(v)
    r = s.r
    v.assume(s.dt != 0, s.tmax != INF, s.tmax != s.t)
    v.assume(s.status != s.E("REB_STATUS_PAUSED"), s.status != s.E("REB_STATUS_SCREENSHOT"))
    v.assume(s.tmax > s.t if sg > 0 else s.tmax < s.t)
    s.sg = sg
    s.h = absr(s.dt)
    s.D = s.h if sg > 0 else -s.h              # the user's step with the sign of the direction of integration
    v.contract(STEP, step_contract(kind, sets_dld))
    v.contract("reb_run_heartbeat", heartbeat_contract)
    return s


def common_invariants(s, L):
    st, t, dt = fld(s, L, "status"), fld(s, L, "t"), fld(s, L, "dt")
    k = fld(s, L, "steps_done") - s.steps0
    return st, t, dt, k


def run_and_common_posts(v, s):
    ret = v.call(INTEGRATE, s.rp, s.tmax)
    r = s.r
    v.prove("returns_final_status", ret == r.status)
    v.prove("returns_nonnegative_status", z3.And(0 <= ret, ret <= 7))
    v.prove("time_never_moves_against_direction", s.sg * (r.t - s.t) >= 0)
    return ret


def gen_fixed_inexact(sg):
    tag = "forward" if sg > 0 else "backward"

    @P.task("integrate.fixed.inexact.%s" % tag, fn=RAW)
    def _(v):
        """fixed-step integrators (incl. JANUS: sets_dld arbitrary), exact_finish_time != 1:
        loop invariant  t = t0 + k*D (k = steps taken), dt = D, previous boundary was before tmax.
        On SUCCESS: 0 <= sign*(t - tmax) < |dt|, k = ceil((tmax - t0)/D); dt = user's dt with the direction sign."""
        sd = z3.Bool("integrator_sets_dt_last_done")
        s = integrate_setup(v, "fixed", sg, sd)
        v.assume(s.exact != 1)
        D = s.D

        def inv(L):
            st, t, dt, k = common_invariants(s, L)
            return [("dt_is_user_step_with_direction", dt == D),
                    ("last_full_dt", L.last_full_dt == D),
                    ("status", z3.Or(st == s.E(RUNNING), exit_status(st))),
                    ("steps", z3.And(k >= 0, t == s.t + z3.ToReal(k) * D)),
                    ("monotone", sg * (t - s.t) >= 0),
                    ("previous_boundary_before_target", z3.Or(k == 0, sg * (t - D - s.tmax) < 0))]
        v.loop(RAW, 0, invariant=inv)
        ret = run_and_common_posts(v, s)
        r = s.r
        k = r.steps_done - s.steps0
        ok = ret == s.E(SUCCESS)
        v.prove("success.at_or_past_target", z3.Implies(ok, sg * (r.t - s.tmax) >= 0))
        v.prove("success.overshoot_less_than_one_step", z3.Implies(ok, sg * (r.t - s.tmax) < s.h))
        v.prove("success.number_of_steps_is_ceil", z3.Implies(ok, z3.And(z3.ToReal(k - 1) * s.h < sg * (s.tmax - s.t),
                                                                         sg * (s.tmax - s.t) <= z3.ToReal(k) * s.h, k >= 1)))
        v.prove("t_is_step_boundary", r.t == s.t + z3.ToReal(k) * D)
        v.prove("dt_afterwards_is_user_dt_with_direction", r.dt == D)
        v.prove("early_exit_names_exit_condition", z3.Implies(z3.Not(ok), exit_status(ret)))


def gen_fixed_exact(sg):
    tag = "forward" if sg > 0 else "backward"

    @P.task("integrate.fixed.exact.%s" % tag, fn=RAW)
    def _(v):
        """fixed-step integrators, exact_finish_time == 1.  Two-phase invariant:
        (1) full steps: dt = D, t strictly before tmax;  (2) the shortened last step has been taken: t == tmax.
        On SUCCESS t == tmax exactly; in every case dt is restored to the user's step (direction sign)."""
        sd = z3.Bool("integrator_sets_dt_last_done")
        s = integrate_setup(v, "fixed", sg, sd)
        v.assume(s.exact == 1)
        D = s.D

        def inv(L):
            st, t, dt, k = common_invariants(s, L)
            dld = fld(s, L, "dt_last_done")
            full = z3.And(dt == D, sg * (s.tmax - t) > 0, z3.Or(st == s.E(RUNNING), exit_status(st)), z3.Or(dld == 0, dld == D),
                          t == s.t + z3.ToReal(k) * D)
            last = z3.And(t == s.tmax, z3.Or(st == s.E(LAST_STEP), exit_status(st)), k >= 1)
            return [("last_full_dt_is_user_step", L.last_full_dt == D),
                    ("dt_direction", sg * dt > 0),
                    ("phase", z3.Or(full, last)),
                    ("steps", k >= 0),
                    ("monotone", sg * (t - s.t) >= 0)]
        v.loop(RAW, 0, invariant=inv)
        ret = run_and_common_posts(v, s)
        r = s.r
        ok = ret == s.E(SUCCESS)
        v.prove("success.ends_exactly_on_target", z3.Implies(ok, r.t == s.tmax))
        v.prove("never_past_target", sg * (s.tmax - r.t) >= 0)
        v.prove("dt_restored_to_user_dt_with_direction", r.dt == D)
        v.prove("early_exit_names_exit_condition", z3.Implies(z3.Not(ok), exit_status(ret)))
        k = r.steps_done - s.steps0
        v.prove("success.took_at_least_one_step", z3.Implies(ok, k >= 1))


def gen_adaptive(sg):
    tag = "forward" if sg > 0 else "backward"

    @P.task("integrate.adaptive.exact.%s" % tag, fn=RAW)
    def _(v):
        """adaptive step contract, exact_finish_time == 1: t never passes tmax, never moves backwards, SUCCESS only within
        the code's tolerance of tmax, dt afterwards = last full step (same direction)."""
        s = integrate_setup(v, "adaptive", sg)
        v.assume(s.exact == 1)
        tol = z3.If(absr(s.tmax) * E12 < E200, E12, absr(s.tmax) * E12)

        def inv(L):
            st, t, dt, k = common_invariants(s, L)
            dld = fld(s, L, "dt_last_done")
            return [("dt_direction", sg * dt > 0),
                    ("last_full_dt_direction", sg * L.last_full_dt > 0),
                    ("dt_last_done_direction", z3.Or(dld == 0, sg * dld > 0)),
                    ("status", z3.Or(st == s.E(RUNNING), st == s.E(LAST_STEP), exit_status(st))),
                    ("not_past_target", sg * (s.tmax - t) >= 0),
                    ("monotone", sg * (t - s.t) >= 0)]
        v.loop(RAW, 0, invariant=inv)
        ret = run_and_common_posts(v, s)
        r = s.r
        ok = ret == s.E(SUCCESS)
        v.prove("success.within_tolerance_of_target", z3.Implies(ok, z3.Or(r.t == s.tmax, absr(r.t - s.tmax) < tol)))
        v.prove("success.within_1e-12_relative", z3.Implies(z3.And(ok, absr(s.tmax) >= z3.RealVal("1e-187")),
                                                             absr(r.t - s.tmax) <= z3.RealVal("1e-12") * absr(s.tmax)))
        v.prove("never_past_target", sg * (s.tmax - r.t) >= 0)
        v.prove("dt_afterwards_points_in_direction", sg * r.dt > 0)
        v.prove("early_exit_names_exit_condition", z3.Implies(z3.Not(ok), exit_status(ret)))

    @P.task("integrate.adaptive.inexact.%s" % tag, fn=RAW)
    def _(v):
        """adaptive step contract, exact_finish_time != 1: exit at the first boundary at or past tmax, overshoot smaller
        than the last completed step (dt_last_done)."""
        s = integrate_setup(v, "adaptive", sg)
        v.assume(s.exact != 1)

        def inv(L):
            st, t, dt, k = common_invariants(s, L)
            dld = fld(s, L, "dt_last_done")
            return [("dt_direction", sg * dt > 0),
                    ("dt_last_done_direction", z3.Or(dld == 0, sg * dld > 0)),
                    ("status", z3.Or(st == s.E(RUNNING), exit_status(st))),
                    ("monotone", sg * (t - s.t) >= 0),
                    ("previous_boundary_before_target", z3.If(dld == 0, t == s.t, sg * (t - dld - s.tmax) < 0))]
        v.loop(RAW, 0, invariant=inv)
        ret = run_and_common_posts(v, s)
        r = s.r
        ok = ret == s.E(SUCCESS)
        v.prove("success.at_or_past_target", z3.Implies(ok, sg * (r.t - s.tmax) >= 0))
        v.prove("success.overshoot_less_than_last_step", z3.Implies(ok, sg * (r.t - s.tmax) < absr(r.dt_last_done)))
        v.prove("dt_afterwards_points_in_direction", sg * r.dt > 0)
        v.prove("early_exit_names_exit_condition", z3.Implies(z3.Not(ok), exit_status(ret)))


for _sg in (1, -1):
    gen_fixed_inexact(_sg)
    gen_fixed_exact(_sg)
    gen_adaptive(_sg)


@P.task("integrate.noop", fn=RAW)
def _(v):
    """tmax == t: no step is taken, t and dt are unchanged (dt keeps the user's sign), SUCCESS unless an exit condition
    is already pending (error message, heartbeat, no particles).  dt_last_done IS reset to 0 (deliberate, see code)."""
    s = mk(v)
    v.assume(s.dt != 0, s.tmax != INF, s.tmax == s.t)
    v.assume(s.status != s.E("REB_STATUS_PAUSED"), s.status != s.E("REB_STATUS_SCREENSHOT"))
    steps = []

    def step(eng, st, args, n):
        steps.append(1)
        return step_contract("adaptive")(eng, st, args, n)
    v.contract(STEP, step)
    hb = []

    def heartbeat(eng, st, args, n):
        heartbeat_contract(eng, st, args, n)
        hb.append(eng.read(st, Ptr(args[0].obj, ("status",))))
    v.contract("reb_run_heartbeat", heartbeat)
    v.loop(RAW, 0, unroll=2)
    ret = v.call(INTEGRATE, s.rp, s.tmax)
    r = s.r
    v.ground("no_step_taken", not steps)
    v.prove("steps_done_unchanged", r.steps_done == s.steps0)
    v.prove("t_unchanged", r.t == s.t)
    v.prove("dt_unchanged", r.dt == s.dt)
    v.prove("N_unchanged", r.N == s.N)
    v.prove("status", ret == z3.If(no_particles(s), s.E("REB_STATUS_NO_PARTICLES"),
                                  z3.If(s.err[0] == 1, s.E("REB_STATUS_GENERIC_ERROR"),
                                        z3.If(hb[0] >= 0, hb[0], s.E(SUCCESS)))))
    v.prove("dt_last_done_reset", r.dt_last_done == 0)


@P.task("integrate.prologue_direction", fn=RAW)
def _(v):
    """before the loop: dt gets the sign of (tmax - t), magnitude unchanged; if it already points that way it is unchanged
    (copysign is exact, so a follow-up call continues with bitwise the same dt); status := RUNNING."""
    s = mk(v)
    v.assume(s.dt != 0, s.tmax != INF, s.tmax != s.t)
    v.assume(s.status != s.E("REB_STATUS_PAUSED"), s.status != s.E("REB_STATUS_SCREENSHOT"))
    seen = []

    def heartbeat(eng, st, args, n):
        rd = lambda f: eng.read(st, Ptr(args[0].obj, (f,)))
        seen.append((rd("t"), rd("dt"), rd("status"), rd("dt_last_done")))
        # stop immediately: exposes the state right after the prologue
        eng.write(st, Ptr(args[0].obj, ("status",)), s.E("REB_STATUS_USER"))
    v.contract("reb_run_heartbeat", heartbeat)
    v.contract(STEP, step_contract("fixed"))
    v.loop(RAW, 0, unroll=2)
    ret = v.call(INTEGRATE, s.rp, s.tmax)
    t1, dt1, st1, dld1 = seen[0]
    v.prove("dt_points_to_target", dt1 * (s.tmax - s.t) > 0)
    v.prove("dt_magnitude_kept", absr(dt1) == absr(s.dt))
    v.prove("dt_unchanged_if_already_pointing_to_target", z3.Implies(s.dt * (s.tmax - s.t) > 0, dt1 == s.dt))
    v.prove("t_untouched", t1 == s.t)
    v.prove("status_running", st1 == s.E(RUNNING))
    v.prove("dt_last_done_reset", dld1 == 0)
    v.prove("user_stop_returned_at_next_check", z3.Implies(z3.And(s.err[0] == 0, s.N > 0), ret == s.E("REB_STATUS_USER")))
    v.prove("user_stop.no_step.t_unchanged", s.r.t == s.t)
    v.prove("user_stop.dt_keeps_direction_and_size", s.r.dt == dt1)


@P.task("steps.fixed", fn="reb_simulation_steps")
def _(v):
    """reb_simulation_steps(r, n) with the fixed step contract: t' = t + n*dt, dt unchanged, steps_done += n"""
    s = mk(v)
    n = v.int("N_steps")
    v.assume(n >= 0)
    v.contract(STEP, step_contract("fixed"))

    def inv(L):
        i = L.i
        return [("range", z3.And(0 <= i, i <= n)), ("t", fld(s, L, "t") == s.t + z3.ToReal(i) * s.dt),
                ("dt", fld(s, L, "dt") == s.dt), ("count", fld(s, L, "steps_done") == s.steps0 + i)]
    v.loop("reb_simulation_steps", 0, invariant=inv, variant=lambda L: n - L.i)
    v.call("reb_simulation_steps", s.rp, n)
    v.prove("t", s.r.t == s.t + z3.ToReal(n) * s.dt)
    v.prove("dt", s.r.dt == s.dt)
    v.prove("steps_done", s.r.steps_done == s.steps0 + n)


@P.task("split.step_count_additive", fn=RAW)
def _(v):
    """lemma over the contract of integrate.fixed.inexact: integrating t0 -> tmax1 -> tmax2 (same direction, tmax2 not
    before the point t1 actually reached) takes k1 + k2 = ceil((tmax2 - t0)/h) steps of the same dt: the same step
    boundaries as a single call to tmax2."""
    t0, h, a, b = v.real("t0"), v.real("h"), v.real("tmax1"), v.real("tmax2")
    k1, k2, K = v.int("k1"), v.int("k2"), v.int("K")
    R = z3.ToReal
    t1 = t0 + R(k1) * h
    hyps = [h > 0, a > t0, b > t1, k1 >= 1, k2 >= 1, K >= 1,
            R(k1 - 1) * h < a - t0, a - t0 <= R(k1) * h,          # first call   (success.number_of_steps_is_ceil)
            R(k2 - 1) * h < b - t1, b - t1 <= R(k2) * h,          # second call, starting at t1 with the same dt
            R(K - 1) * h < b - t0, b - t0 <= R(K) * h]            # single call
    v.lemma("same_number_of_steps", hyps, K == k1 + k2)
    v.lemma("same_end_time", hyps, t0 + R(K) * h == t1 + R(k2) * h)


# =====================================================================================================
# the step contract on the real part1 / part2
# =====================================================================================================
def true_inv(L):
    return [("index_nonnegative", L.i >= 0)]


def step_post(v, r, t0, dt0, dld0, sets_dld=True):
    v.prove("t_advances_by_dt", r.t == t0 + dt0)
    v.prove("dt_unchanged", r.dt == dt0)
    if sets_dld:
        v.prove("dt_last_done_is_dt", r.dt_last_done == dt0)
    else:
        v.prove("dt_last_done_NOT_set", r.dt_last_done == dld0)


def simple_step_task(name, integ, loops, files=None, defined=True):
    @P.task("stepcontract." + name, fn="reb_integrator_part2", files=files)
    def _(v):
        """reb_integrator_part1; (forces); reb_integrator_part2 through the real dispatch: t' = t+dt, dt' = dt,
        dt_last_done' = dt.  Particle loops run under the trivial invariant (everything they write is havocked)."""
        r, rp = v.struct_obj("struct reb_simulation", "r")
        N = v.int("N")
        parts = v.array("struct reb_particle", N, "P")
        r.N, r.particles, r.N_odes = N, parts.ptr, 0
        r.integrator = v.enumc(integ)
        v.assume(N >= 0)
        v.eng.check_defined = defined      # False: divisions inside the per-particle operators are not this contract's business
        t0, dt0, dld0 = r.t, r.dt, r.dt_last_done
        for (fn, k) in loops:
            v.loop(fn, k, invariant=true_inv)
        v.call("reb_integrator_part1", rp)
        v.eng.havoc(v.st, {(parts.obj.id, None)}, "forces")          # reb_calculate_acceleration writes particles[].a*
        v.call("reb_integrator_part2", rp)
        step_post(v, r, t0, dt0, dld0)


simple_step_task("leapfrog", "REB_INTEGRATOR_LEAPFROG", [("reb_integrator_leapfrog_part1", 0), ("reb_integrator_leapfrog_part2", 0)])
simple_step_task("sei", "REB_INTEGRATOR_SEI", [("reb_integrator_sei_part1", 0), ("reb_integrator_sei_part2", 0)], defined=False)
simple_step_task("none", "REB_INTEGRATOR_NONE", [])


def whfast_step_task(coord, safe, sync):
    from contracts import _words as W
    from contracts.C01_order import wh_cfg

    @P.task("stepcontract.whfast.%s.safe%d.sync%d" % (coord.lower(), safe, sync), fn="reb_integrator_whfast_part2", files=W.WH_FILES)
    def _(v):
        """WHFast through the real dispatch; the Kepler/jump/interaction/COM primitives and coordinate transforms are
        replaced by havoc of the arrays they write (their write frames exclude t, dt, dt_last_done: stepcontract.frame)"""
        r, rp, dt = W.make_sim(v, wh_cfg(coord, "DEFAULT", 0, 0, safe=safe, sync=sync))
        r.N_odes = 0
        t0, dt0, dld0 = r.t, r.dt, r.dt_last_done
        W.run(v, rp, ["reb_integrator_part1", "F", "reb_integrator_part2"])
        step_post(v, r, t0, dt0, dld0)


for _c in ("JACOBI", "DEMOCRATICHELIOCENTRIC", "WHDS", "BARYCENTRIC"):
    whfast_step_task(_c, 1, 1)
whfast_step_task("JACOBI", 0, 1)
whfast_step_task("JACOBI", 0, 0)


def saba_step_task(tname):
    from contracts import _words as W
    from contracts.C01_order import saba_cfg

    @P.task("stepcontract.saba.%s" % tname[9:].lower(), fn="reb_integrator_saba_part2", files=W.WH_FILES)
    def _(v):
        r, rp, dt = W.make_sim(v, saba_cfg(tname))
        r.N_odes = 0
        t0, dt0, dld0 = r.t, r.dt, r.dt_last_done
        W.run(v, rp, ["reb_integrator_part1", "F", "reb_integrator_part2"])
        step_post(v, r, t0, dt0, dld0)


for _t in ("REB_SABA_1", "REB_SABA_4", "REB_SABA_10_6_4", "REB_SABA_H_8_4_4"):
    saba_step_task(_t)


@P.task("stepcontract.janus", fn="reb_integrator_janus_part2", files=["src/integrator_janus.c", "src/integrator.c"])
def _(v):
    """JANUS: t' = t + dt, dt' = dt, and dt_last_done is NOT written (it stays at the 0 the integrate prologue stored:
    reb_check_exit then keeps last_full_dt = the user's dt, so the restore clause still holds -- integrate.fixed.exact
    is proved for an integrator that sets dt_last_done and for one that does not)."""
    order = v.int("order")
    v.assume(z3.Or(*[order == o for o in (2, 4, 6, 8, 10)]))
    r, rp = v.struct_obj("struct reb_simulation", "r")
    N = v.int("N")
    r.N, r.N_odes = N, 0
    r.integrator = v.enumc("REB_INTEGRATOR_JANUS")
    r.ri_janus.order = order
    r.ri_janus.N_allocated = N
    r.ri_janus.recalculate_integer_coordinates_this_timestep = 0
    pint = v.array("struct reb_particle_int", N, "PI")
    parts = v.array("struct reb_particle", N, "P")
    r.ri_janus.p_int, r.particles = pint.ptr, parts.ptr
    v.assume(N >= 0)
    v.eng.const_globals = {"s1odr2", "s5odr4", "s9odr6a", "s15odr8", "s33odr10c"}

    def prim(arrs):
        def f(eng, st, args, n):
            eng.havoc(st, {(a.obj.id, None) for a in arrs}, "prim")
        return f
    for nm, arrs in {"drift": [pint], "kick": [pint], "to_double": [parts], "to_int": [pint],
                     "reb_simulation_update_acceleration": [parts], "reb_simulation_error": []}.items():
        v.eng.trace_prims[nm] = prim(arrs)
    t0, dt0, dld0 = r.t, r.dt, r.dt_last_done
    v.call("reb_integrator_part1", rp)
    v.call("reb_integrator_part2", rp)
    step_post(v, r, t0, dt0, dld0, sets_dld=False)


# =====================================================================================================
# write frames computed from the AST of the whole library (engine.frames)
# =====================================================================================================
def may_write(summ, field, param=0):
    for (root, path) in summ.writes:
        if root == ("P", param) and (len(path) == 0 or path[0] == field or path[0] in ("*", "...")):
            return True
    return False


TIME_FIELDS = ("t", "dt", "dt_last_done", "exact_finish_time")


@P.task("stepcontract.frame", fn=STEP, files=["src/rebound.c"], timeout=300)
def _(v):
    """frame conditions used by the contracts above, from the write summaries (transitive, field sensitive) of the real
    library sources: which r-> members each function may write."""
    from engine import frames
    from contracts import _words as W
    lib = frames.Lib(repo=v.eng.tus[0].repo)
    S_ = frames.Summaries(lib)
    prims = list(W.PRIMS) + [n for n in W.NOTES] + ["drift", "kick", "to_double", "to_int", "reb_simulation_update_acceleration"]
    S_.compute([INTEGRATE, STEP, CHECK, "reb_run_heartbeat", "reb_simulation_synchronize", "reb_particle_check_testparticles",
                "reb_simulation_steps", "reb_simulationarchive_heartbeat"] + [p for p in prims if lib.function(p)[1] is not None])
    t, fn = lib.function(STEP)
    callees = sorted({frames.callee_name(n) for n in frames.walk(fn) if n.get("kind") == "CallExpr"} - {None})
    v.ground("step.calls_part1_and_part2", "reb_integrator_part1" in callees and "reb_integrator_part2" in callees, str(callees))
    for c in callees:
        if c in ("reb_integrator_part1", "reb_integrator_part2"):
            continue
        bad = [f for f in TIME_FIELDS if may_write(S_.get(c), f)]
        v.ground("step.callee.%s.does_not_write_time_fields" % c, not bad, "%s may write %s" % (c, bad))
    # statements of reb_simulation_step itself
    own = sorted({".".join(r[1]) for (r, _l) in S_.analyses[STEP].direct_writes if r[0] == ("P", 0)} & set(TIME_FIELDS))
    inherited = {f for c in ("reb_integrator_part1", "reb_integrator_part2") for f in TIME_FIELDS if may_write(S_.get(c), f)}
    v.ground("step.time_fields_written_only_through_part1_part2", set(own) <= inherited, "%s vs %s" % (own, sorted(inherited)))
    v.ground("step.increments_steps_done", may_write(S_.get(STEP), "steps_done"))
    # fixed-step integrators: dt is not written at all, t / dt_last_done only by partN themselves
    for integ in ("leapfrog", "sei", "whfast", "saba", "eos", "janus"):
        for part in ("part1", "part2"):
            s_ = S_.get("reb_integrator_%s_%s" % (integ, part))
            bad = [f for f in ("dt", "exact_finish_time", "status", "steps_done") if may_write(s_, f)]
            v.ground("fixed.%s.%s.does_not_write_dt_status" % (integ, part), not bad, str(bad))
    v.ground("janus.never_writes_dt_last_done", not any(may_write(S_.get("reb_integrator_janus_" + p), "dt_last_done") for p in ("part1", "part2", "synchronize")))
    for integ in ("mercurius", "trace", "ias15", "bs"):
        s_ = S_.get("reb_integrator_%s_part2" % integ)
        v.ground("adaptive_or_hybrid.%s.part2.writes_dt(reason_it_is_not_under_the_fixed_contract)" % integ, may_write(s_, "dt"))
    # primitives replaced by havoc in stepcontract.whfast/saba/janus
    for p in prims:
        if lib.function(p)[1] is None:
            continue
        bad = [f for f in TIME_FIELDS + ("status", "steps_done") if may_write(S_.get(p), f)]
        v.ground("primitive.%s.does_not_write_time_fields" % p, not bad, str(bad))
    # synchronize / heartbeat / check_exit / helpers used through contracts in the integrate.* tasks
    sy = S_.get("reb_simulation_synchronize")
    bad = [f for f in TIME_FIELDS + ("status", "N", "steps_done") if may_write(sy, f)]
    v.ground("synchronize.frame", not bad, str(bad))
    hb = S_.get("reb_run_heartbeat")
    v.ground("heartbeat.writes_only_status", {p for (root, p) in hb.writes if root == ("P", 0)} == {("status",)}, str(sorted(hb.writes, key=str)))
    v.ground("heartbeat.indirect_calls_are_the_user_heartbeat", hb.indirect <= {"r->heartbeat"}, str(hb.indirect))
    ce = S_.get(CHECK)
    bad = [f for f in ("t", "dt_last_done", "exact_finish_time", "N", "steps_done") if may_write(ce, f)]
    v.ground("check_exit.frame", not bad and may_write(ce, "dt") and may_write(ce, "status"), str(bad))
    for f_ in ("reb_particle_check_testparticles",):
        v.ground("%s.writes_nothing" % f_, not [w for w in S_.get(f_).writes if w[0][0] == "P"], str(S_.get(f_).writes))
    w = S_.get("reb_simulation_warning")
    v.ground("warning.writes_only_messages", {p[0] for (root, p) in w.writes if root == ("P", 0) and p} <= {"messages"} and
             not any(root == ("P", 0) and not p for (root, p) in w.writes), str(sorted(w.writes, key=str)))
    ah = S_.get("reb_simulationarchive_heartbeat")
    bad = [f for f in TIME_FIELDS + ("status", "N", "steps_done") if may_write(ah, f)]
    v.ground("simulationarchive_heartbeat.frame", not bad, str(bad))
    # prologue/epilogue of integrate_raw: own statements write only dt, dt_last_done, status (+ the sigint flag)
    raw_t, raw_fn = lib.function(RAW)
    own_fields = set()
    for n in frames.walk(raw_fn):
        k = n.get("kind")
        if (k == "BinaryOperator" and n.get("opcode") == "=") or k == "CompoundAssignOperator" or \
           (k == "UnaryOperator" and n.get("opcode") in ("++", "--")):
            lhs = frames.strip_casts(n["inner"][0])
            if lhs.get("kind") == "MemberExpr":
                own_fields.add(frames.expr_text(lhs))
    v.ground("integrate_raw.own_assignments", own_fields <= {"r->dt", "r->dt_last_done", "r->status", "r->server_data->mutex_locked_by_integrate"},
             str(sorted(own_fields)))


# =====================================================================================================
# Python: Simulation.integrate status -> exception
# =====================================================================================================
EXPECTED_EXCEPTION = {        # specification: docs (c_api / ipython examples "exceptions") and the enum comments
    "REB_STATUS_SUCCESS": None, "REB_STATUS_GENERIC_ERROR": "GenericError", "REB_STATUS_NO_PARTICLES": "NoParticles",
    "REB_STATUS_ENCOUNTER": "Encounter", "REB_STATUS_ESCAPE": "Escape", "REB_STATUS_USER": None,
    "REB_STATUS_SIGINT": "KeyboardInterrupt", "REB_STATUS_COLLISION": "Collision",
}


def _raised_name(stmt):
    ex = stmt.exc
    if isinstance(ex, pyast.Call):
        ex = ex.func
    return ex.id if isinstance(ex, pyast.Name) else (ex.attr if isinstance(ex, pyast.Attribute) else None)


def _raises_in(body):
    out = []
    for st in body:
        for n in pyast.walk(st):
            if isinstance(n, pyast.Raise):
                out.append(_raised_name(n))
    return out


@P.task("python.status_to_exception", fn=INTEGRATE, files=["src/rebound.c"])
def _(v):
    """rebound/simulation.py Simulation.integrate (parsed with ast on every run) against enum REB_STATUS from clang:
    every non-negative status has exactly the documented exception; nothing else raises."""
    repo = v.eng.tus[0].repo
    src = open(os.path.join(repo, "rebound", "simulation.py")).read()
    tree = pyast.parse(src)
    cls = [n for n in tree.body if isinstance(n, pyast.ClassDef) and n.name == "Simulation"]
    v.ground("class_Simulation_found", len(cls) == 1)
    fn = [n for n in cls[0].body if isinstance(n, pyast.FunctionDef) and n.name == "integrate"]
    v.ground("method_integrate_found", len(fn) == 1)
    fn = fn[0]
    enum = v.eng.tu0.enum_sets["REB_STATUS"]
    v.ground("enum.nonnegative_statuses_are_the_specified_ones", {k for k, val in enum.items() if val >= 0} == set(EXPECTED_EXCEPTION),
             str(sorted((val, k) for k, val in enum.items())))
    v.ground("enum.running_states_negative", all(enum[k] < 0 for k in enum if k not in EXPECTED_EXCEPTION))
    # ret_value = clibrebound.reb_simulation_integrate(byref(self), c_double(tmax))
    assigns = [n for n in pyast.walk(fn) if isinstance(n, pyast.Assign) and isinstance(n.value, pyast.Call)
               and isinstance(n.value.func, pyast.Attribute) and n.value.func.attr == "reb_simulation_integrate"]
    v.ground("calls_reb_simulation_integrate_once", len(assigns) == 1)
    var = assigns[0].targets[0].id
    call = assigns[0].value
    v.ground("passes_tmax", len(call.args) == 2 and isinstance(call.args[1], pyast.Call) and getattr(call.args[1].func, "id", "") == "c_double"
             and getattr(call.args[1].args[0], "id", "") == "tmax")
    # exact_finish_time is stored into the struct before the call
    pos = fn.body.index(assigns[0])
    sets = [n for n in fn.body[:pos] if isinstance(n, pyast.Assign) and isinstance(n.targets[0], pyast.Attribute)
            and n.targets[0].attr == "exact_finish_time"]
    v.ground("exact_finish_time_argument_stored_before_call", len(sets) == 1 and "exact_finish_time" in pyast.dump(sets[0].value))
    table, other_raises = {}, []
    for st in fn.body[pos + 1:]:
        if isinstance(st, pyast.If) and isinstance(st.test, pyast.Compare) and isinstance(st.test.left, pyast.Name) and st.test.left.id == var \
           and len(st.test.ops) == 1 and isinstance(st.test.ops[0], pyast.Eq) and isinstance(st.test.comparators[0], pyast.Constant) and not st.orelse:
            code = st.test.comparators[0].value
            rs = set(_raises_in(st.body))
            uncond = any(isinstance(x, pyast.Raise) for x in st.body) or \
                any(isinstance(x, pyast.If) and x.orelse and _raises_in(x.body) and _raises_in(x.orelse) for x in st.body)
            table.setdefault(code, []).append((rs, uncond))
        else:
            other_raises += _raises_in([st])
    v.ground("no_raise_outside_status_table", not other_raises, str(other_raises))
    byval = {val: k for k, val in enum.items()}
    for code in sorted(table):
        v.ground("python_code_%s_is_an_enum_value" % code, code in byval and byval[code] in EXPECTED_EXCEPTION, str(code))
        v.ground("python_code_%s_handled_once" % code, len(table[code]) == 1)
    for name, exc in sorted(EXPECTED_EXCEPTION.items(), key=lambda kv: enum[kv[0]]):
        val = enum[name]
        got = table.get(val, [(set(), False)])[0]
        if exc is None:
            v.ground("%s(%d).raises_nothing" % (name, val), not got[0], str(got))
        else:
            v.ground("%s(%d).raises_%s" % (name, val, exc), got[0] == {exc} and got[1], str(got))
    # the exception classes exist in the package
    pkg = os.path.join(repo, "rebound")
    defined = set()
    for f in os.listdir(pkg):
        if f.endswith(".py"):
            for n in pyast.walk(pyast.parse(open(os.path.join(pkg, f)).read())):
                if isinstance(n, pyast.ClassDef):
                    defined.add(n.name)
    for exc in sorted({e for e in EXPECTED_EXCEPTION.values() if e and e != "KeyboardInterrupt"}):
        v.ground("exception_class_%s_defined" % exc, exc in defined)


# =====================================================================================================
# reb_run_heartbeat: user heartbeat + escape / close-encounter exit conditions ("exists a particle / a pair")
# =====================================================================================================
HB = "reb_run_heartbeat"
P.assume("heartbeat.*: esc(k) / enc(a,b) are names for 'particle k is farther than exit_max_distance' / 'pair (a,b) is closer than "
         "exit_min_distance' (definitional axioms over the particle array, instantiated by the solver)")


def hb_setup(v):
    r, rp = v.struct_obj("struct reb_simulation", "r")
    N, Nvar = v.int("N"), v.int("N_var")
    parts = v.array("struct reb_particle", None, "P")
    r.N, r.N_var, r.particles = N, Nvar, parts.ptr
    st0 = v.int("status")
    r.status = st0
    v.assume(0 <= Nvar, Nvar <= N)
    X, Y, Z = parts.array("x"), parts.array("y"), parts.array("z")
    dmax, dmin = v.real("exit_max_distance"), v.real("exit_min_distance")
    r.exit_max_distance, r.exit_min_distance = dmax, dmin
    called = []

    def cb(eng, st, f, args, node, callee):
        # the user's heartbeat: may raise an exit status (reb_simulation_stop), see P.assume
        called.append(frames_text(callee))
        havoc_status(eng, st, rp, "user_heartbeat")
        return None
    v.st.ghost["callback"] = cb
    k, a, b = z3.Ints("k a b")
    esc = z3.Function("esc", z3.IntSort(), z3.BoolSort())
    enc = z3.Function("enc", z3.IntSort(), z3.IntSort(), z3.BoolSort())
    sq = lambda u: u * u
    v.assume(z3.ForAll([k], esc(k) == (sq(z3.Select(X, k)) + sq(z3.Select(Y, k)) + sq(z3.Select(Z, k)) > dmax * dmax), patterns=[esc(k)]))
    v.assume(z3.ForAll([a, b], enc(a, b) == (sq(z3.Select(X, a) - z3.Select(X, b)) + sq(z3.Select(Y, a) - z3.Select(Y, b)) +
                                            sq(z3.Select(Z, a) - z3.Select(Z, b)) < dmin * dmin), patterns=[enc(a, b)]))
    return r, rp, N - Nvar, st0, dmax, dmin, esc, enc, called, parts


def frames_text(n):
    from engine import frames
    return frames.expr_text(n)


def status_of(L, rp):
    return L.eng.read(L.st, Ptr(rp.obj, ("status",)))


def upto(Nr):
    return z3.If(Nr >= 0, Nr, 0)


@P.task("heartbeat.off", fn=HB)
def _(v):
    """both distances 0 (the default): only the user heartbeat runs"""
    r, rp, Nr, st0, dmax, dmin, esc, enc, called, parts = hb_setup(v)
    v.assume(dmin == 0, dmax == 0)
    v.call(HB, rp)
    v.prove("status_is_what_user_heartbeat_left", z3.Or(r.status == st0, exit_status(r.status)))
    v.prove("no_user_heartbeat_no_change", z3.Implies(z3.Not(r.heartbeat.tag), r.status == st0))
    v.ground("only_indirect_call_is_r->heartbeat", set(called) <= {"r->heartbeat"}, str(called))


@P.task("heartbeat.escape", fn=HB)
def _(v):
    """status' = ESCAPE iff some real particle k < N - N_var has x^2+y^2+z^2 > exit_max_distance^2 (else what the user
    heartbeat left); particles untouched."""
    r, rp, Nr, st0, dmax, dmin, esc, enc, called, parts = hb_setup(v)
    v.assume(dmin == 0, dmax != 0)
    ESC = v.enumc("REB_STATUS_ESCAPE")
    k = z3.Int("k")
    F = ("x", "y", "z", "vx", "vy", "vz", "m")
    old = {f: parts.array(f) for f in F}
    pre = {}

    def inv(L):
        cur, i = status_of(L, rp), L.i
        s1 = pre["s1"] = L.eng.read(L.entry, Ptr(rp.obj, ("status",)))
        return [("range", z3.And(i >= 0, i <= upto(Nr))),
                ("found", z3.ForAll([k], z3.Implies(z3.And(0 <= k, k < i, esc(k)), cur == ESC))),
                ("else_unchanged", z3.Or(cur == s1, z3.And(cur == ESC, z3.Exists([k], z3.And(0 <= k, k < i, esc(k))))))]
    v.loop(HB, 0, invariant=inv, variant=lambda L: Nr - L.i)
    v.call(HB, rp)
    j = v.int("j")
    s1 = pre["s1"]
    v.prove("some_particle_escaped_implies_ESCAPE", z3.Implies(z3.And(0 <= j, j < Nr, esc(j)), r.status == ESC))
    v.prove("otherwise_status_kept", z3.Implies(z3.Not(z3.Exists([k], z3.And(0 <= k, k < Nr, esc(k)))), r.status == s1))
    v.prove("user_heartbeat_result_is_exit_status_or_unchanged", z3.Or(s1 == st0, exit_status(s1)))
    v.prove("particles_untouched", z3.And(*[parts.array(f) == old[f] for f in F]))
    v.ground("only_indirect_call_is_r->heartbeat", set(called) <= {"r->heartbeat"}, str(called))


@P.task("heartbeat.encounter", fn=HB)
def _(v):
    """status' = ENCOUNTER iff some pair b < a < N - N_var is closer than exit_min_distance -- also when a particle has
    escaped in the same step (the encounter check runs second and overwrites ESCAPE)."""
    r, rp, Nr, st0, dmax, dmin, esc, enc, called, parts = hb_setup(v)
    v.assume(dmin != 0)
    ENC = v.enumc("REB_STATUS_ENCOUNTER")
    a, b, k = z3.Ints("a b k")
    v.loop(HB, 0, invariant=lambda L: [("range", L.i >= 0)], variant=lambda L: Nr - L.i)
    pre = {}

    def outer(L):
        cur, i = status_of(L, rp), L.i
        s1 = pre["s1"] = L.eng.read(L.entry, Ptr(rp.obj, ("status",)))
        return [("range", z3.And(i >= 0, i <= upto(Nr))),
                ("found", z3.ForAll([a, b], z3.Implies(z3.And(0 <= b, b < a, a < i, enc(a, b)), cur == ENC))),
                ("else_unchanged", z3.Or(cur == s1, z3.And(cur == ENC, z3.Exists([a, b], z3.And(0 <= b, b < a, a < i, enc(a, b))))))]

    def inner(L):
        cur, i, j = status_of(L, rp), L.i, L.j
        s1 = pre["s1"]
        seen = lambda a_, b_: z3.And(0 <= b_, b_ < a_, z3.Or(a_ < i, z3.And(a_ == i, b_ < j)))
        return [("range", z3.And(j >= 0, j <= i, i >= 0, i < Nr)),
                ("found", z3.ForAll([a, b], z3.Implies(z3.And(seen(a, b), enc(a, b)), cur == ENC))),
                ("else_unchanged", z3.Or(cur == s1, z3.And(cur == ENC, z3.Exists([a, b], z3.And(seen(a, b), enc(a, b))))))]
    v.loop(HB, 1, invariant=outer, variant=lambda L: Nr - L.i)
    v.loop(HB, 2, invariant=inner, variant=lambda L: L.i - L.j)
    v.call(HB, rp)
    ja, jb = v.int("ja"), v.int("jb")
    s1 = pre["s1"]
    v.prove("some_pair_close_implies_ENCOUNTER", z3.Implies(z3.And(0 <= jb, jb < ja, ja < Nr, enc(ja, jb)), r.status == ENC))
    v.prove("otherwise_status_kept", z3.Implies(z3.Not(z3.Exists([a, b], z3.And(0 <= b, b < a, a < Nr, enc(a, b)))), r.status == s1))


@P.task("split.later_target_keeps_direction", fn=RAW)
def _(v):
    """Splitting clause, second call: the first call (forward, exact_finish_time=0, target tmax1) stopped at the first step
    boundary t with tmax1 <= t < tmax1 + dt.  The user now asks for a LATER target tmax2 > tmax1.  For the split integration
    to follow the trajectory of a single call to tmax2, the second call must continue forward with the same dt (or do
    nothing if t already is at/past tmax2).
    EXPECTED TO FAIL on the pinned tree when tmax1 < tmax2 < t (the new target lies inside the overshoot of the first call):
    the prologue flips dt to -dt and integrates BACKWARDS to the first boundary <= tmax2
    (native: dt=10, integrate(25) -> t=30, integrate(28) -> t=20, dt=-10; a single integrate(28) gives t=30)."""
    s = mk(v)
    tmax1 = v.real("tmax1")
    v.assume(s.dt > 0, tmax1 <= s.t, s.t < tmax1 + s.dt, s.tmax > tmax1, s.tmax != INF, s.exact != 1)
    v.assume(s.status == s.E(SUCCESS))
    seen = []

    def heartbeat(eng, st, args, n):
        rd = lambda f: eng.read(st, Ptr(args[0].obj, (f,)))
        seen.append(rd("dt"))
        eng.write(st, Ptr(args[0].obj, ("status",)), s.E("REB_STATUS_USER"))     # stop right after the prologue
    v.contract("reb_run_heartbeat", heartbeat)
    v.contract(STEP, step_contract("fixed"))
    v.loop(RAW, 0, unroll=2)
    v.call(INTEGRATE, s.rp, s.tmax)
    v.prove("second_call_continues_with_the_same_dt", seen[0] == s.dt)
