"""C08: integrate() time / step-size / status contract (rebound.c: reb_check_exit, reb_simulation_integrate[_raw]).

R-mode (doubles as reals).  reb_simulation_step is replaced by a STEP CONTRACT per integrator class; the contract is
proved on the real part1/part2 in the tasks `stepcontract.*`; the frame "nothing else in reb_simulation_step writes
t / dt / dt_last_done" is computed from the AST of the whole library (engine.frames write summaries).
"""
import ast as pyast
import os
import z3
from engine.api import Pack
from engine.mem import Ptr, NULL, Opaque, FuncRef, StructObj
from engine.csym import as_int, as_real, as_bool, const_int
from engine import cfront

FILES = ["src/rebound.c", "src/integrator.c", "src/integrator_leapfrog.c", "src/integrator_sei.c"]
P = Pack("C08", FILES, "integrate(): time, step size, status")
PACKS = [P]

RUNNING, LAST_STEP, SUCCESS = "REB_STATUS_RUNNING", "REB_STATUS_LAST_STEP", "REB_STATUS_SUCCESS"
CHECK, RAW, INTEGRATE = "reb_check_exit", "reb_simulation_integrate_raw", "reb_simulation_integrate"


def sgn_is(x, s):
    """x has the sign s (s = +1 / -1 python int)"""
    return x > 0 if s > 0 else x < 0


def absr(x):
    return z3.If(x >= 0, x, -x)


class S:
    pass


INF = z3.Real("INFINITY")      # R-mode stand-in for the macro INFINITY: a distinguished value no finite tmax equals


def mk(v, integrator=None, messages_null=True, callbacks_null=True):
    """symbolic simulation for reb_check_exit / integrate_raw"""
    s = S()
    s.v = v
    r, rp = v.struct_obj("struct reb_simulation", "r")
    s.r, s.rp = r, rp
    s.t, s.dt, s.tmax = v.real("t"), v.real("dt"), v.real("tmax")
    s.status, s.N, s.exact = v.int("status"), v.int("N"), v.int("exact_finish_time")
    r.t, r.dt, r.status, r.N, r.exact_finish_time = s.t, s.dt, s.status, s.N, s.exact
    s.dld = v.real("dt_last_done")
    r.dt_last_done = s.dld
    s.steps0 = v.int("steps_done")
    r.steps_done = s.steps0
    s.N_odes = v.int("N_odes")
    r.N_odes = s.N_odes
    v.assume(s.N >= 0, s.N_odes >= 0)
    if integrator is not None:
        r.integrator = v.enumc(integrator)
    if messages_null:
        r.messages = NULL
    if callbacks_null:
        r.heartbeat = NULL
    r.simulationarchive_filename = NULL
    r.server_data = NULL
    r.display_data = NULL
    s.sync_calls = []

    def sync(eng, st, args, n):
        s.sync_calls.append(1)
        return None
    v.contract("reb_simulation_synchronize", sync)
    v.contract("reb_simulation_warning", lambda eng, st, args, n: None)
    v.contract("__builtin_inff", lambda eng, st, args, n: INF)
    v.eng.havoc_calls |= {"signal", "usleep", "pthread_mutex_lock", "pthread_mutex_unlock"}
    return s


@P.task("check_exit.probe", fn=CHECK)
def _(v):
    s = mk(v)
    lfd, lfdp = v.cell("double", "last_full_dt")
    v.assume(s.status >= -2, s.status <= 7)
    ret = v.call(CHECK, s.rp, s.tmax, lfdp)
    v.prove("ret_is_status", ret == s.r.status)
