"""C10 (word level, continued): LEAPFROG, SEI, unprocessed EOS (outer and inner splitting), MERCURIUS (no encounters),
SABA with correctors and the WHFast MODIFIEDKICK / LAZY kernels execute palindromic operator words, so step(-dt) after
step(dt) cancels letter by letter under X(-a)X(a) = id.  The words are extracted from the REAL part1/part2/synchronize bodies
(symbolic dt of either sign, so the word of step(-dt) is the same word with dt -> -dt)."""
from fractions import Fraction
import z3
from engine.api import Pack
from engine import opword
from contracts import _words as W
from contracts import _wordloops as WL
from contracts import C01_order_more as M1

P = Pack("C10", W.WH_FILES, "palindromic words of symmetric schemes (leapfrog, SEI, EOS, MERCURIUS, correctors, kernels)")
PACKS = [P]
P.assume("each letter satisfies X(-a)X(a)=id: drift and kick with frozen accelerations (affine body contracts proved in C01), "
         "exact H0 flow of SEI (body contract proved in C01 against the flow of Hill's equations: group property of a flow), "
         "modified kick exp(yB+v[B,[A,B]]) (flow of one vector field), EOS shell-0 drift (flow of one generator)")
P.assume("processed EOS schemes (PLF7_6_4, PMLF4, PMLF6) are conjugations P K P^-1 of a palindromic kernel K by a processor that "
         "is not itself symmetric: time symmetry is neither advertised nor claimed for them; only the kernel is checked")
P.not_decided += ["MERCURIUS with close encounters: the encounter prediction and the IAS15 sub-integration are adaptive and not "
                  "time-symmetric (only the encounter-free word is claimed)"]

fmt = WL.fmt


def sym_checks(v, word, tag, norm, keep=lambda w: True):
    w = norm(word)
    core = [x for x in w if keep(x)]
    v.ground(tag + ".palindromic", core == core[::-1] and len(core) >= 3, fmt(w))
    both = norm(word + WL.neg_word(word))
    v.ground(tag + ".reverse_cancels", both == [], fmt(both))


def plain_norm(word):
    return WL.reduce_word(word, {"D", "I", "H"})


@P.task("leapfrog.symmetric", fn="reb_integrator_leapfrog_part2")
def _(v):
    r, rp, dt, word = M1.leapfrog_word(v)
    sym_checks(v, word, "step", plain_norm)
    v.st.trace = []
    word2 = W.run(v, rp, ["reb_integrator_leapfrog_part1", "F", "reb_integrator_leapfrog_part2"])
    v.ground("second_step_same_word", plain_norm(word2) == plain_norm(word), fmt(word2))


@P.task("sei.symmetric", fn="reb_integrator_sei_part2", timeout=300)
def _(v):
    r, rp, dt, word = M1.sei_word(v)
    sym_checks(v, word, "step", plain_norm)
    v.st.trace = []
    word2 = W.run(v, rp, ["reb_integrator_sei_part1", "F", "reb_integrator_sei_part2"])
    v.ground("second_step_same_word", plain_norm(word2) == plain_norm(word), fmt(word2))


UNPROCESSED = ["LF", "LF4", "LF6", "LF8", "LF4_2", "LF8_6_4"]
PROCESSED = ["PLF7_6_4", "PMLF4", "PMLF6"]

for _t in UNPROCESSED:
    def mk(phi=_t):
        @P.task("eos.outer.%s.symmetric" % phi.lower(), fn="reb_integrator_eos_part2")
        def _(v):
            r, rp, dt = M1.eos_outer_sim(v, phi)
            word = W.run(v, rp, M1.EOS_STEP)
            sym_checks(v, word, "step", plain_norm)

        @P.task("eos.inner.%s.symmetric" % phi.lower(), fn="reb_integrator_eos_drift_shell0")
        def _(v):
            r, rp, dt = M1.eos_inner_sim(v, phi, 2)
            v.call("reb_integrator_eos_drift_shell0", rp, dt)
            sym_checks(v, list(v.st.trace), "drift_shell0", plain_norm)
    mk()

for _t in PROCESSED:
    def mk(phi=_t):
        @P.task("eos.outer.%s.kernel_symmetric" % phi.lower(), fn="reb_integrator_eos_part2")
        def _(v):
            # unsafe mode, second step: kernel without processors (first drift merged), plus the synchronising drift
            r, rp, dt = M1.eos_outer_sim(v, phi, safe=0, sync=1)
            W.run(v, rp, M1.EOS_STEP)
            v.st.trace = []
            w_mid = W.run(v, rp, M1.EOS_STEP)
            v.st.trace = []
            w_sync = WL.physical(W.run(v, rp, ["reb_integrator_eos_synchronize"]))
            mid = WL.physical(w_mid)
            if not w_sync or not mid:
                v.ground("merged_first_drift", False, "empty word: mid=%s sync=%s" % (fmt(mid), fmt(w_sync)))
                return
            dsync = w_sync[0]
            v.ground("merged_first_drift", mid[0][0] == "D" and dsync[0] == "D" and mid[0][1] == 2 * dsync[1], fmt(mid[:1] + [dsync]))
            kernel = [("D", dsync[1], 1)] + mid[1:] + [dsync]
            sym_checks(v, kernel, "kernel", plain_norm)
    mk()


# ====================================================================== MERCURIUS (encounter-free)
P.assume("MERCURIUS: E (encounter step) is the identity when no particle is in a close encounter (C01 task "
         "mercurius.encounter_step.no_encounter) and is dropped from the word; C (com drift) commutes with everything")


def merc_norm(word):
    w = [x for x in WL.physical(word) if x[0] != "E"]
    ctot = sum((c for (l, c, k) in w if l == "C"), Fraction(0))
    rest = [x for x in w if x[0] != "C"]
    return ([("C", ctot, 1)] if ctot != 0 else []) + WL.reduce_word(rest, {"I", "J", "K"})


@P.task("mercurius.symmetric", fn="reb_integrator_mercurius_part2")
def _(v):
    r, rp, dt, N, parts = M1.merc_sim(v)
    word = W.run(v, rp, M1.MERC_STEP)
    sym_checks(v, word, "step", merc_norm, keep=lambda x: x[0] != "C")
    v.st.trace = []
    word2 = W.run(v, rp, M1.MERC_STEP)
    v.ground("second_step_same_word", merc_norm(word2) == merc_norm(word), fmt(word2))


# ====================================================================== SABA with correctors, WHFast MODIFIEDKICK / LAZY kernels (Jacobi)
P.assume("corrector letter X(c) = jerk kick c*dt^3 (odd in dt) and modified kick M(y,v): flows of one vector field at frozen "
         "positions, so X(-c)X(c) = id, M(-y,-v)M(y,v) = id; for the lazy variants this holds for the real map as well "
         "(the shifted positions are restored from the copy: loop body contracts in C01); J is the identity in Jacobi coordinates "
         "(C01 task whfast.jump_is_identity_for_jacobi_barycentric) and is dropped")


def wh_norm(word):
    w = [x for x in WL.physical(word) if x[0] != "J"]
    ctot = sum((c for (l, c, k) in w if l == "C"), Fraction(0))
    rest = [x for x in w if x[0] != "C"]
    return ([("C", ctot, 1)] if ctot != 0 else []) + WL.reduce_word(rest, {"K", "I", "X"})


for _tn in M1.SABAC:
    def mk(tname=_tn):
        @P.task("sabac.%s.symmetric" % tname[9:].lower(), fn="reb_integrator_saba_part2")
        def _(v):
            r, rp, dt = M1.corrector_sim(v, M1.saba_cfg(tname))
            word = M1.fuse(v, W.run(v, rp, M1.SABA_STEP), "step")
            sym_checks(v, word, "step", wh_norm, keep=lambda x: x[0] != "C")
    mk()

for _k in ("MODIFIEDKICK", "LAZY"):
    def mk(kernel=_k):
        @P.task("whkernel.%s.symmetric" % kernel.lower(), fn="reb_integrator_whfast_part2")
        def _(v):
            r, rp, dt = M1.corrector_sim(v, M1.wh_cfg("JACOBI", kernel, 0, 0))
            word = M1.fuse(v, W.run(v, rp, M1.WH_STEP), "step")
            sym_checks(v, word, "step", wh_norm, keep=lambda x: x[0] != "C")
            v.st.trace = []
            word2 = M1.fuse(v, W.run(v, rp, M1.WH_STEP), "step2")
            v.ground("second_step_same_word", wh_norm(word2) == wh_norm(word), fmt(word2))
    mk()
