"""heap -- models of malloc/calloc/realloc/free/memset/memcpy/memcmp for the symbolic executor (mixin)."""
import z3
from .mem import Ptr, NULL, Opaque, FuncRef, Cell, StructObj, ArrObj
from .csym import Unsupported, is_z3, simp, const_int, as_bool, as_int, as_real, sort_of


class HeapMixin:
    # ownership/ghost status lives in st.ghost["heap"] : {objid: {"owner": str, "kind": "heap"|"other"}}
    def heap_info(self, st, oid):
        return st.ghost.get("heap", {}).get(oid)

    def heap_set(self, st, oid, **kw):
        h = dict(st.ghost.get("heap", {}))
        d = dict(h.get(oid, {}))
        d.update(kw)
        h[oid] = d
        st.ghost["heap"] = h

    def new_raw_block(self, st, size, zeroed=False, name="heap"):
        a = ArrObj(None, None, "sym", "%s%d" % (name, next(self.fresh_n)))
        a.leaves = {}
        a.leaf_types = {}
        a.raw_size = as_int(size)
        a.zeroed = zeroed
        st.mem.add(a)
        self.heap_set(st, a.id, owner="callee", kind="heap")
        return Ptr(a.id, (z3.IntVal(0),), False)

    def retype_block(self, st, ptr, elem):
        """First typed view of a raw malloc block: element type from the cast."""
        a = st.mem.get(ptr.obj)
        if not isinstance(a, ArrObj) or a.elem is not None:
            return ptr
        if elem.kind == "void" or (elem.kind == "int" and elem.bits == 8):
            return ptr
        a.elem = elem
        sz = self.sizeof(elem)
        a.length = simp(a.raw_size / sz) if const_int(a.raw_size) is None else const_int(a.raw_size) // sz
        a.leaf_types = dict(self.leaf_paths(elem))
        a.leaves = {}
        if getattr(a, "zeroed", False):
            for leaf, lt in a.leaf_types.items():
                srt = z3.IntSort() if lt.kind in ("ptr", "func") else sort_of(lt)
                a.leaves[leaf] = z3.K(z3.IntSort(), z3.RealVal(0) if srt == z3.RealSort() else z3.IntVal(0))
        return ptr

    def bi_malloc(self, st, args, n):
        return self.new_raw_block(st, args[0])

    def bi_calloc(self, st, args, n):
        return self.new_raw_block(st, simp(as_int(args[0]) * as_int(args[1])), zeroed=True)

    def bi_realloc(self, st, args, n):
        p, size = args
        if isinstance(p, Opaque):
            # pointer to a block the harness did not model: the result is a fresh block (old content not tracked)
            return self.new_raw_block(st, size)
        if not isinstance(p, Ptr):
            raise Unsupported("realloc of %r" % (p,))
        if p.obj is None:
            return self.new_raw_block(st, size)
        nullc = p.null
        if nullc is True:
            return self.new_raw_block(st, size)
        old = st.mem.get(p.obj)
        if not isinstance(old, ArrObj):
            raise Unsupported("realloc of non-array object")
        if nullc is not False:
            # pointer that may be NULL: both cases give a block whose prefix equals the old content (if any)
            pass
        if old.elem is None:
            q = self.new_raw_block(st, size)
            self._mark_freed(st, old, n)
            return q
        new = ArrObj(old.elem, None, "sym", "%s_r%d" % (old.name or "blk", next(self.fresh_n)))
        new.leaf_types = old.leaf_types
        new.leaves = dict(old.leaves) if old.mode == "sym" else {}
        if old.mode == "list":
            raise Unsupported("realloc of a concrete list array")
        sz = self.sizeof(old.elem)
        cs = const_int(size)
        new.length = cs // sz if cs is not None else simp(as_int(size) / sz)
        st.mem.add(new)
        self.heap_set(st, new.id, owner=(self.heap_info(st, old.id) or {}).get("owner", "callee"), kind="heap")
        self._mark_freed(st, old, n)
        return Ptr(new.id, (z3.IntVal(0),), False)

    def _mark_freed(self, st, arr, n):
        arr.freed = True

    def bi_free(self, st, args, n):
        p = args[0]
        if isinstance(p, Opaque):
            return None
        if not isinstance(p, Ptr):
            raise Unsupported("free of %r" % (p,))
        if p.obj is None or p.null is True:
            return None
        o = st.mem.get(p.obj)
        guard = []
        if p.null is not False:
            guard = [z3.Not(p.null)]
        info = self.heap_info(st, p.obj) or {}
        where = self._where(n)
        if info.get("owner") == "caller":
            self.oblige(st, "free.not_caller_owned@%s" % where, z3.BoolVal(False) if not guard else p.null, "heap", n)
        if isinstance(o, ArrObj):
            if p.path and const_int(p.path[-1]) != 0 and len(p.path) == 1:
                self.oblige(st, "free.block_start@%s" % where, as_int(p.path[-1]) == 0, "heap", n)
            fr = o.freed
            if fr is not False:
                f = fr if is_z3(fr) else z3.BoolVal(True)
                self.oblige(st, "free.no_double_free@%s" % where, z3.Or(z3.Not(f), p.null) if guard else z3.Not(f), "heap", n)
            if guard:
                tb = (fr if is_z3(fr) else z3.BoolVal(bool(fr)))
                o.freed = simp(z3.Or(tb, z3.Not(p.null)))
            else:
                o.freed = True
        elif isinstance(o, (StructObj, Cell)):
            fr = st.ghost.get("freed_objs", frozenset())
            if p.obj in fr:
                self.oblige(st, "free.no_double_free@%s" % where, z3.BoolVal(False), "heap", n)
            if info.get("kind") != "heap" and info.get("owner") != "caller":
                self.oblige(st, "free.heap_object@%s" % where, z3.BoolVal(False), "heap", n)
            st.ghost["freed_objs"] = frozenset(fr | {p.obj})
        return None

    # ---- bulk memory ----------------------------------------------------------
    def _elems(self, st, p, nbytes, n):
        """(array object, start index, element count) for a byte count on a typed pointer"""
        o = st.mem.get(p.obj)
        if isinstance(o, ArrObj) and o.elem is not None and p.path and not isinstance(p.path[-1], str) and len(p.path) == 1:
            sz = self.sizeof(o.elem)
            cb = const_int(nbytes)
            cnt = cb // sz if cb is not None else simp(as_int(nbytes) / sz)
            return o, as_int(p.path[-1]), cnt
        return None, None, None

    def bi_memset(self, st, args, n):
        p, val, nbytes = args
        if not isinstance(p, Ptr) or p.obj is None:
            raise Unsupported("memset on %r" % (p,))
        o = st.mem.get(p.obj)
        if isinstance(o, ArrObj) and o.elem is None:
            o.zeroed = (const_int(val) == 0)
            return p
        arr, lo, cnt = self._elems(st, p, nbytes, n)
        cv = const_int(val)
        if arr is not None and arr.mode == "sym":
            if arr.length is not None:
                self.check_then_assume(st, "memset.inbounds@%s" % self._where(n), z3.And(lo >= 0, lo + cnt <= arr.length), "mem", n)
            k = z3.Int("k!ms")
            for leaf, lt in arr.leaf_types.items():
                old = self._leaf_array(arr, leaf)
                srt = old.sort().range()
                new = z3.Const("%s_ms%d" % (arr.name, next(self.fresh_n)), old.sort())
                if cv == 0:
                    zero = z3.RealVal(0) if srt == z3.RealSort() else z3.IntVal(0)
                    fill = zero
                    st.assume(z3.ForAll([k], z3.Select(new, k) == z3.If(z3.And(k >= lo, k < lo + cnt), fill, z3.Select(old, k))))
                else:
                    st.assume(z3.ForAll([k], z3.Implies(z3.Not(z3.And(k >= lo, k < lo + cnt)), z3.Select(new, k) == z3.Select(old, k))))
                arr.leaves[leaf] = new
                self._logw(st, arr.id, leaf)
            return p
        # struct or cell target
        tgt = self.peek(st, p)
        if isinstance(tgt, StructObj) and cv == 0:
            z = self.zero_value(tgt.ctype)
            self.write(st, p, z, n)
            return p
        if isinstance(tgt, ArrObj) and tgt.mode == "list" and cv == 0:
            for i in range(len(tgt.items)):
                tgt.items[i] = self.zero_value(tgt.elem)
            return p
        raise Unsupported("memset target")

    def bi_memcpy(self, st, args, n):
        d, s, nbytes = args
        if not (isinstance(d, Ptr) and isinstance(s, Ptr)) or d.obj is None or s.obj is None:
            raise Unsupported("memcpy on %r <- %r" % (d, s))
        da, dlo, cnt = self._elems(st, d, nbytes, n)
        sa, slo, cnt2 = self._elems(st, s, nbytes, n)
        if da is not None and sa is not None and da.mode == "sym" and sa.mode == "sym":
            if da.length is not None:
                self.check_then_assume(st, "memcpy.dst_inbounds@%s" % self._where(n), z3.And(dlo >= 0, dlo + cnt <= da.length), "mem", n)
            if sa.length is not None:
                self.check_then_assume(st, "memcpy.src_inbounds@%s" % self._where(n), z3.And(slo >= 0, slo + cnt <= sa.length), "mem", n)
            k = z3.Int("k!mc")
            for leaf, lt in da.leaf_types.items():
                if leaf not in sa.leaf_types:
                    raise Unsupported("memcpy between different element types")
                old = self._leaf_array(da, leaf)
                src = self._leaf_array(sa, leaf)
                new = z3.Const("%s_mc%d" % (da.name, next(self.fresh_n)), old.sort())
                st.assume(z3.ForAll([k], z3.Select(new, k) == z3.If(z3.And(k >= dlo, k < dlo + cnt),
                                                                     z3.Select(src, k - dlo + slo), z3.Select(old, k))))
                da.leaves[leaf] = new
                self._logw(st, da.id, leaf)
            return d
        # struct <- struct of the same size
        sv = self.peek(st, s)
        dv = self.peek(st, d)
        if isinstance(sv, StructObj) and isinstance(dv, StructObj):
            self.write(st, d, self.read(st, s, n), n)
            return d
        if da is not None and da.mode == "sym" and isinstance(sv, StructObj) and const_int(cnt) == 1:
            self.write(st, d, self.read(st, s, n), n)
            return d
        if sa is not None and sa.mode == "sym" and isinstance(dv, StructObj) and const_int(cnt2) == 1:
            self.write(st, d, self.read(st, s, n), n)
            return d
        raise Unsupported("memcpy shapes")

    bi_memmove = bi_memcpy
