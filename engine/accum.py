"""accum -- the accumulation rule (DESIGN 3.3) for commutative accumulation loop nests.

A loop nest  `for (i=lo_i; c_i; i++) [stmts] for (j=lo_j; c_j; j++) BODY`  that only adds into a declared set of
accumulator leaves is verified without a 2-D inductive invariant:

 1. HEADERS are read from the AST: the engine executes the `for` init itself; the handler takes the value of the loop
    variable as the lower bound, replaces the variable by a fresh symbol, evaluates the real condition expression on it
    and checks (semantically) that the increment is +1 and (obligation `.header.*.downward_closed`) that the condition is
    downward closed in the loop variable, so that  {visited} = {v >= lo & cond(v)}.
 2. BODY is executed symbolically once per path (local path exploration; `continue` guards become part of the visit
    predicate) in a state where every accumulator leaf is a fresh array.  The pack's `visit` callback states the body
    contract (accumulator' - accumulator == spec term) and declares the *contributions* (key tuples over the index
    symbols).  The write log gives the frame (`.frame.*`): nothing but accumulators (and locals of the body) is written.
 3. ITERATION SPACE: `Accum.iterspace` builds, from the recorded visit predicates, the closed linear-integer formulas
    "every visited contribution is specified" and "every specified contribution is visited exactly once".
 4. The conclusion (accumulator_final = accumulator_initial + sum over the specified set) is the meta-theorem (fold over a
    commutative monoid is independent of the order) -- listed by the packs under trusted rules.

After a nest the accumulators are havocked in the continuing state: nothing about the sum is assumed in z3.
"""
import itertools
import z3
from .mem import Ptr, Cell, StructObj, ArrObj
from .csym import Unsupported, Flow, NORMAL, LoopSpec, as_bool, as_int, simp, is_z3
from .cexec import PathEnd


# ------------------------------------------------------------------------------------------------ loop tree from the AST
class LoopInfo:
    def __init__(self, ordinal, node, parent, cases):
        self.ordinal, self.node, self.parent, self.cases = ordinal, node, parent, cases
        self.line = node.get("_line")
        self.children = []

    def depth_first(self):
        yield self
        for c in self.children:
            for x in c.depth_first():
                yield x

    def shape(self):
        """nesting shape as nested tuples, e.g. ((),) for a loop with one childless inner loop"""
        return tuple(c.shape() for c in self.children)

    def __repr__(self):
        return "<loop#%d line %s cases=%s %d children>" % (self.ordinal, self.line, self.cases, len(self.children))


def loop_tree(eng, fn):
    """All loops of function `fn` in source order (same ordinals as the engine's loop keys) with their nesting and the
    path of `case` labels of the enclosing switch statements (tuple of python ints / 'default')."""
    tu, f = eng.find_function(fn)
    if f is None:
        raise Unsupported("function %s not found" % fn)
    cnt = itertools.count()
    out = []

    def case_value(c):
        x = c["inner"][0]
        while isinstance(x, dict) and "value" not in x and x.get("inner"):
            x = x["inner"][0]
        try:
            return int(x["value"])
        except Exception:
            v = eng.rvalue(None, c["inner"][0])
            return z3.simplify(v).as_long()

    def walk(x, parent, cases):
        if not isinstance(x, dict):
            return
        k = x.get("kind")
        if k in ("ForStmt", "WhileStmt", "DoStmt"):
            li = LoopInfo(next(cnt), x, parent, cases)
            out.append(li)
            if parent is not None:
                parent.children.append(li)
            for c in x.get("inner", ()):
                walk(c, li, cases)
            return
        if k == "SwitchStmt":
            inner = x["inner"]
            walk(inner[0], parent, cases)
            body = inner[-1]
            items = body.get("inner", []) if body.get("kind") == "CompoundStmt" else [body]
            cur = cases + (None,)
            for it in items:
                c = it
                labels = []
                while isinstance(c, dict) and c.get("kind") in ("CaseStmt", "DefaultStmt"):
                    labels.append(case_value(c) if c["kind"] == "CaseStmt" else "default")
                    c = c["inner"][-1] if c.get("inner") else {}
                if labels:
                    cur = cases + (labels[-1],)
                walk(c, parent, cur)
            return
        for c in x.get("inner", ()):
            walk(c, parent, cases)
    walk(f, None, ())
    return out


def loops_under(eng, fn, *cases):
    """Top-level loops (with their sub-trees) located under the given path of case labels."""
    want = tuple(cases)
    return [l for l in loop_tree(eng, fn) if l.cases == want and (l.parent is None or l.parent.cases != want)]


# ------------------------------------------------------------------------------------------------ select/store resolution
def _int_only(h):
    stack, n = [h], 0
    while stack and n < 3000:
        x = stack.pop()
        n += 1
        if z3.is_real(x):
            return False
        if z3.is_quantifier(x):
            stack.append(x.body())
            continue
        stack.extend(x.children())
    return n < 3000


class Resolver:
    """Rewrites Select(Store(a, x, v), y) and If(c, a, b) using index facts that a solver confirms from the integer-only
    hypotheses (each rewrite is backed by an `unsat` answer, so the result is equal to the input under the hypotheses)."""

    def __init__(self, hyps, timeout=2000):
        self.sol = z3.Solver()
        self.sol.set("timeout", timeout)
        for h in hyps:
            if _int_only(h):
                self.sol.add(h)
        self.cache = {}
        self.known = {}

    def entails(self, c):
        key = c.get_id()
        r = self.known.get(key)
        if r is None:
            self.sol.push()
            self.sol.add(z3.Not(c))
            r = self.sol.check() == z3.unsat
            self.sol.pop()
            self.known[key] = (r, c)
            return r
        return r[0]

    def __call__(self, t):
        if not is_z3(t):
            return t
        key = t.get_id()
        hit = self.cache.get(key)
        if hit is not None:
            return hit[0]
        r = self._rw(t)
        self.cache[key] = (r, t)
        return r

    def _rw(self, t):
        if not z3.is_app(t) or t.num_args() == 0:
            return t
        k = t.decl().kind()
        ch = [self(c) for c in t.children()]
        if k == z3.Z3_OP_SELECT:
            a, idx = ch
            if z3.is_app(a) and a.decl().kind() == z3.Z3_OP_ITE:
                c, x, y = a.children()
                return self(z3.If(c, z3.Select(x, idx), z3.Select(y, idx)))
            while z3.is_app(a) and a.decl().kind() == z3.Z3_OP_STORE:
                b, x, v = a.children()
                if x.eq(idx) or self.entails(x == idx):
                    return v
                if self.entails(x != idx):
                    a = b
                    continue
                break
            return z3.Select(a, idx)
        if k == z3.Z3_OP_ITE:
            c = ch[0]
            if z3.is_true(c) or (not _has_real(c) and self.entails(c)):
                return ch[1]
            if z3.is_false(c) or (not _has_real(c) and self.entails(z3.Not(c))):
                return ch[2]
        if all(a.eq(b) for a, b in zip(ch, t.children())):
            return t
        return t.decl()(*ch)


def _has_real(c):
    return not _int_only(c)


# ------------------------------------------------------------------------------------------------ the rule
class Level:
    def __init__(self, ordinal, name, sym, lo, cond, cell_id):
        self.ordinal, self.name, self.sym, self.lo, self.cond, self.cell_id = ordinal, name, sym, lo, cond, cell_id


class Visit:
    """One path through the innermost body of a nest."""

    def __init__(self, acc, nest, levels, state, guards, pre, post, path, flow):
        self.acc, self.nest, self.levels, self.state = acc, nest, list(levels), state
        self.guards = list(guards)          # header constraints + branch decisions (z3 Bools over the index symbols)
        self.pre, self.post = pre, post     # {acc key: z3 array}
        self.path = path
        self.flow = flow
        self.contribs = []                  # (key tuple, when)
        self.idx = {l.name: l.sym for l in levels}
        self._res = {}

    @property
    def eng(self):
        return self.acc.v.eng

    def local(self, name):
        return self.eng.local(self.state, name)

    def resolver(self, assuming=()):
        key = tuple(a.get_id() for a in assuming)
        r = self._res.get(key)
        if r is None:
            r = self._res[key] = Resolver(self.state.hyps() + list(assuming))
        return r

    def resolve(self, t, assuming=()):
        return z3.simplify(self.resolver(assuming)(t))

    def unguarded(self, hyps, assuming=()):
        """hypotheses with `Implies(g, h)` replaced by `h` when the integer facts of the path (plus `assuming`) entail g
        (facts recorded inside a merged `if` branch carry the branch condition as a guard)"""
        res = self.resolver(assuming)
        out = []
        for h in hyps:
            if z3.is_app(h) and h.decl().kind() == z3.Z3_OP_IMPLIES and _int_only(h.arg(0)) and res.entails(h.arg(0)):
                out.append(h.arg(1))
            else:
                out.append(h)
        return out

    def delta(self, key, idx, assuming=()):
        """accumulator'[idx] - accumulator[idx] with the select/store chains resolved (each rewrite solver-checked
        against the integer hypotheses of the path plus `assuming`)"""
        return self.resolve(z3.Select(self.post[key], idx) - z3.Select(self.pre[key], idx), assuming)

    def prove(self, name, goal, assuming=(), kind="post", **meta):
        ob = self.eng.oblige(self.state, self.acc.obname(self, name), goal, kind, extra_hyps=list(assuming))
        ob.meta.update(meta)
        return ob

    def contrib(self, key, when=True, cls=None):
        """declare: on this path the body adds the spec term with this key (tuple of +-index symbols); `cls` separates
        different families of terms that share a key space (e.g. direct and Jacobi terms)"""
        self.contribs.append((tuple(key), z3.BoolVal(True) if when is True else when, cls))

    def unchanged(self, key, name="unchanged"):
        return self.prove(name + "." + self.acc.keyname(key), self.post[key] == self.pre[key])


class Nest:
    def __init__(self, name, levels, visit, pre=None, entry=None, outer=None, after=None):
        self.name, self.levels, self.visit, self.pre, self.entry = name, list(levels), visit, pre, entry
        self.outer, self.after = outer, after
        self.visits = []


class Accum:
    def __init__(self, v, fn, accumulators, tag=""):
        """accumulators: list of (AV array view, leaf path tuple) -- the only memory the nests may write"""
        self.v, self.fn, self.tag = v, fn, tag
        self.accs = []
        for (av, leaf) in accumulators:
            leaf = tuple(leaf) if isinstance(leaf, (tuple, list)) else (leaf,)
            self.accs.append((av, leaf))
        self.nests = []
        self.stack = []           # active Levels
        self.base = None          # len(pc) at the entry of the outermost active level
        self.entry_done = set()

    # ---- naming
    def keyname(self, key):
        av, leaf = key
        return "%s.%s" % (av.obj.name, ".".join(str(x) for x in leaf))

    def relname(self, visit, name):
        p = ".p%d" % visit.path if visit.path else ""
        return "%s%s.%s" % (visit.nest.name, p, name)

    def obname(self, visit, name):
        return "%s.%s" % (self.v.task.name, self.relname(visit, name))

    def key(self, av, *leaf):
        for (a, l) in self.accs:
            if a._a.id == av._a.id and l == tuple(leaf):
                return (a, l)
        raise KeyError(leaf)

    # ---- registration
    def nest(self, name, levels, visit, pre=None, entry=None, outer=None, after=None):
        """levels: loop ordinals from the outermost accumulation level to the innermost loop (whose body is the BODY).
        outer(st) -> [(name, symbol, [guards])]: index symbols of enclosing loops that are verified with a true inductive
        invariant (engine rule) instead of this rule; the guards (range of the symbol) are proved to hold at the entry of
        the nest (`.outer.<name>.guard`), the pack proves separately that the enclosing loop sweeps that whole range.
        after(): called when the nest has been processed (to state the iteration-space obligations when the enclosing
        invariant loop ends the path after the body)."""
        n = Nest(name, levels, visit, pre, entry, outer, after)
        self.nests.append(n)
        eng = self.v.eng
        for o in levels[:-1]:
            if (self.fn, o) not in eng.loopspecs:
                eng.loopspecs[(self.fn, o)] = LoopSpec(self._mk(o, None), mode="custom")
        eng.loopspecs[(self.fn, levels[-1])] = LoopSpec(self._mk(levels[-1], n), mode="custom")
        return n

    def _mk(self, ordinal, nest):
        def h(eng, st, node, cond, inc, body):
            return self._handle(eng, st, node, cond, inc, body, ordinal, nest)
        return h

    # ---- helpers
    def _acc_arrays(self, st):
        eng = self.v.eng
        out = {}
        for key in self.accs:
            av, leaf = key
            out[key] = eng._leaf_array(st.mem.objs[av._a.id], leaf)
        return out

    def havoc(self, st, tag):
        self.v.eng.havoc(st, {(av._a.id, leaf) for (av, leaf) in self.accs}, tag)

    def _loopvar(self, eng, st, node):
        init = node["inner"][0]
        did = None
        if init.get("kind") == "DeclStmt":
            ds = [d for d in init.get("inner", []) if d.get("kind") == "VarDecl"]
            if len(ds) == 1:
                did, name = ds[0]["id"], ds[0]["name"]
        elif init.get("kind") == "BinaryOperator" and init.get("opcode") == "=":
            x = init["inner"][0]
            while x.get("kind") in ("ParenExpr", "ImplicitCastExpr"):
                x = x["inner"][0]
            if x.get("kind") == "DeclRefExpr":
                did, name = x["referencedDecl"]["id"], x["referencedDecl"]["name"]
        if did is None or did not in st.frames[-1]:
            raise Unsupported("accum: cannot identify the loop variable of the loop at line %s" % node.get("_line"))
        cell = st.mem.objs[st.frames[-1][did]]
        if not isinstance(cell, Cell) or not (is_z3(cell.value) and z3.is_int(cell.value)):
            raise Unsupported("accum: loop variable %s is not an integer cell" % name)
        return cell, name

    def _check_unit_stride(self, eng, st, inc, cell, node):
        if inc is None:
            raise Unsupported("accum: loop without increment at line %s" % node.get("_line"))
        s = st.clone()
        t = eng.fresh("stride_probe", z3.IntSort())
        s.mem.objs[cell.id].value = t
        s.log = None
        eng.rvalue(s, inc)
        d = z3.simplify(s.mem.objs[cell.id].value - t)
        if not (z3.is_int_value(d) and d.as_long() == 1):
            raise Unsupported("accum: increment of loop at line %s is not +1 (%s)" % (node.get("_line"), d))

    def _frame_check(self, eng, st_entry, log, node, label, extra_ok=()):
        """writes to objects that existed at the entry of this level must be accumulator leaves"""
        ok_keys = {(av._a.id, leaf) for (av, leaf) in self.accs}
        bad = []
        for (oid, leaf) in sorted(log, key=str):
            if oid not in st_entry.mem.objs or oid in extra_ok:
                continue
            if (oid, leaf) in ok_keys:
                continue
            o = st_entry.mem.objs[oid]
            bad.append("%s%s" % (getattr(o, "name", oid), "." + ".".join(map(str, leaf)) if leaf else ""))
        self.v.ground(label, not bad, "writes outside the accumulators: %s" % (bad or "none"))

    # ---- the handler
    def _handle(self, eng, st, node, cond, inc, body, ordinal, nest):
        if cond is None:
            raise Unsupported("accum: loop without condition")
        cell, name = self._loopvar(eng, st, node)
        dry = not eng.check_defined           # dry run of an enclosing invariant loop: only the write log matters
        outermost = not self.stack
        if outermost and not dry:
            self.base = len(st.pc)
        if not dry:
            self._check_unit_stride(eng, st, inc, cell, node)
            for n in self.nests:
                if n.entry is not None and n.levels[0] == ordinal and (n.name, ordinal) not in self.entry_done:
                    n.entry(st)
        lo = cell.value
        s = st.clone()
        sym = eng.fresh(name, z3.IntSort())
        s.mem.objs[cell.id].value = sym
        s.assume(sym >= lo)
        c = as_bool(eng.rvalue(s, cond))
        s.assume(c)
        if dry:
            fl = eng.exec_stmt(s, body)
            self.havoc(st, "acc")
            return NORMAL
        tname = "%s.header.%s%d" % (self.v.task.name, name, ordinal)
        # the condition must be downward closed in the loop variable: {visited} = {v >= lo & cond(v)}
        sp = st.clone()
        symp = eng.fresh(name + "_below", z3.IntSort())
        sp.mem.objs[cell.id].value = symp
        sp.log = None
        chk = eng.check_defined
        eng.check_defined = False
        try:
            cp = as_bool(eng.rvalue(sp, cond))
        finally:
            eng.check_defined = chk
        eng.oblige(s, tname + ".downward_closed", z3.Implies(z3.And(lo <= symp, symp <= sym), cp), "loop", node)
        lvl = Level(ordinal, name, sym, lo, c, cell.id)
        self.stack.append(lvl)
        saved_log = st.log
        try:
            if nest is None:
                s.log = set()
                fl = eng.exec_stmt(s, body)
                if fl.kind not in (Flow.NORMAL, Flow.CONTINUE):
                    raise Unsupported("accum: break/return/goto leaves the loop at line %s on a feasible path" % node.get("_line"))
                self._frame_check(eng, st, s.log, node, "frame.%s%d" % (name, ordinal))
                if saved_log is not None:
                    saved_log |= s.log
            else:
                self._inner(eng, st, s, node, body, nest, saved_log)
        finally:
            self.stack.pop()
        self.havoc(st, "acc")
        st.mem.objs[cell.id].value = eng.fresh(name + "_after", z3.IntSort())
        return NORMAL

    def _inner(self, eng, st, s, node, body, nest, saved_log):
        header = list(s.pc[self.base:])
        levels = list(self.stack)
        if nest.outer is not None:
            pseudo = []
            for (oname, osym, oguards) in nest.outer(st):
                for gi, g in enumerate(oguards):
                    eng.oblige(st, "%s.%s.outer.%s.guard%d" % (self.v.task.name, nest.name, oname, gi), g, "loop", node)
                header = list(oguards) + header
                pseudo.append(Level(-1, oname, osym, None, None, None))
            levels = pseudo + levels
        self.havoc(s, "acc0")
        pre = self._acc_arrays(s)
        if nest.pre is not None:
            nest.pre(Visit(self, nest, levels, s, header, pre, pre, 0, None))
        saved = (eng.decisions, eng.dpos, eng.nofork)
        pend = [[]]
        npath = 0
        try:
            while pend:
                prefix = pend.pop()
                eng.decisions, eng.dpos, eng.nofork = list(prefix), 0, 0
                s2 = s.clone()
                s2.log = set()
                rec = []
                orig = type(eng).decide

                def decide(st_, cond_, what="branch", _rec=rec, _orig=orig):
                    d = _orig(eng, st_, cond_, what)
                    cc = simp(cond_)
                    if not (z3.is_true(cc) or z3.is_false(cc)):
                        _rec.append(cc if d else z3.Not(cc))
                    return d
                eng.decide = decide
                fl = None
                try:
                    fl = eng.exec_stmt(s2, body)
                except PathEnd:
                    fl = None
                finally:
                    del eng.decide
                for k in range(len(prefix), len(eng.decisions)):
                    d = eng.decisions[k]
                    if d[0] == "open":
                        pend.append(eng.decisions[:k] + [("taken", False)])
                    elif d[0] == "choice":
                        for alt in range(1, d[2]):
                            pend.append(eng.decisions[:k] + [("taken", alt)])
                if fl is None:
                    continue
                if fl.kind not in (Flow.NORMAL, Flow.CONTINUE):
                    raise Unsupported("accum: break/return/goto inside the body of nest %s (line %s)" % (nest.name, node.get("_line")))
                post = self._acc_arrays(s2)
                vis = Visit(self, nest, levels, s2, header + rec, pre, post, npath, fl.kind)
                npath += 1
                self._frame_check(eng, st, s2.log, node, self.relname(vis, "frame.writes"))
                # vacuity guard: the hypotheses of this body path (header, pack assumptions, model axioms) must be
                # satisfiable, otherwise every body obligation would hold trivially
                chk = z3.Solver()
                chk.set("timeout", 3000)
                for h in s2.hyps():
                    chk.add(h)
                self.v.ground(self.relname(vis, "cover.body_hypotheses_satisfiable"), chk.check() != z3.unsat,
                              "hypotheses of the body path are contradictory (vacuous body contract)")
                if saved_log is not None:
                    saved_log |= s2.log
                nest.visit(vis)
                nest.visits.append(vis)
                if npath > 64:
                    raise Unsupported("accum: too many body paths")
        finally:
            eng.decisions, eng.dpos, eng.nofork = saved
        if nest.after is not None:
            nest.after()

    # ---- iteration space
    def freeze_preconditions(self):
        """call right before executing the function: the iteration-space lemmas are then stated under exactly the
        preconditions accumulated so far (and not under facts of whatever path reaches the point where they are stated)"""
        self.pre_hyps = list(self.v.st.pc)

    def _lemma(self, name, hyps, goal):
        from .csym import Obligation
        v = self.v
        base = getattr(self, "pre_hyps", None)
        if base is None:
            return v.lemma(name, hyps, goal)
        ob = Obligation(v.eng.prefix + v.task.name + "." + name, list(base) + list(hyps), goal, "lemma")
        if z3.is_true(z3.simplify(goal)):
            ob.verdict, ob.backend = "proved", "simplify"
        v.eng.obligations.append(ob)
        return ob

    def _substitution(self, vis, key, kvars):
        """index symbols expressed by the key variables (key components must be +-index symbols, each once)"""
        syms = [l.sym for l in vis.levels]
        if len(key) != len(syms):
            raise Unsupported("accum: contribution key has %d components for %d loop levels" % (len(key), len(syms)))
        sub = []
        used = set()
        for comp, kv in zip(key, kvars):
            comp = z3.simplify(comp)
            hit = None
            for sgn in (1, -1):
                for sy in syms:
                    if z3.simplify(comp - sgn * sy).eq(z3.IntVal(0)):
                        hit = (sy, sgn)
            if hit is None or hit[0].get_id() in used:
                raise Unsupported("accum: key component %s is not +-(an unused index symbol)" % comp)
            used.add(hit[0].get_id())
            sub.append((hit[0], kv if hit[1] == 1 else -kv))
        return sub

    def visit_conditions(self, kvars, nests=None, cls=None):
        """[(label, condition over kvars)]: one per declared contribution: 'this contribution has key kvars'"""
        out = []
        for n in self.nests:
            if nests is not None and n.name not in nests:
                continue
            for vis in n.visits:
                for ci, (key, when, kcls) in enumerate(vis.contribs):
                    if kcls != cls:
                        continue
                    sub = self._substitution(vis, key, kvars)
                    cnd = z3.substitute(z3.And(*(vis.guards + [when])), *sub)
                    out.append(("%s.p%d.c%d" % (n.name, vis.path, ci), cnd))
        return out

    def iterspace(self, name, kvars, spec, hyps=(), nests=None, cls=None):
        """Two closed LIA obligations over the free key variables (and the symbolic configuration):
        visited => specified (per contribution), specified => visited exactly once; plus not specified => never visited
        (which is the first one, restated as a count)."""
        v = self.v
        conds = self.visit_conditions(kvars, nests, cls)
        hyps = list(hyps)
        for lab, c in conds:
            self._lemma("%s.visited_is_specified.%s" % (name, lab), hyps, z3.Implies(c, spec))
        cnt = z3.Sum(*[z3.If(c, 1, 0) for _l, c in conds]) if conds else z3.IntVal(0)
        self._lemma("%s.specified_is_visited_exactly_once" % name, hyps, z3.Implies(spec, cnt == 1))
        v.ground("%s.contributions_declared" % name, len(conds) > 0, "%d contribution classes" % len(conds))
        return conds
