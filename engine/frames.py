"""frames -- structural analyses over clang's AST of the WHOLE library (used by contracts/C19_frames.py).

  library_sources()   the translation units that setup.py compiles into librebound (read from the real setup.py)
  Lib                 all of them loaded, function index by name
  shared_variables()  every file-scope / function-local static object, with const-ness
  variable_events()   every write / address-escape of such an object in any function body
  called_functions()  every function name called (or whose address is taken) anywhere
  Summaries           write frames: which memory (as access paths rooted at the parameters, e.g. param0.ri_sei.sindt,
                      param0.particles.*) a function may write, transitively through the calls it makes
  LockFlow            abstract interpretation of one function body tracking held(mutex) through if/else/loops/switch/
                      goto/return; reports every access event together with the possible lock states

All of this is read from the typed AST of the real sources on every run; nothing is typed in.
Precision/soundness notes (also listed as assumptions by the pack):
  * flow-insensitive, field-sensitive points-to for locals inside one function, array elements collapsed;
  * calls through function pointers are not followed: they are reported as `indirect` (user callbacks);
  * external (libc) functions are assumed to write through every pointer parameter not declared pointer-to-const.
"""
import os, re
from . import cfront

NOT_IN_LIBRARY = {"glad.c", "communication_mpi.c"}     # explicit: present in src/ but not compiled by setup.py


def library_sources(repo=None):
    """(compiled, all_c_files): 'src/x.c' entries of setup.py's Extension(sources=[...]) and the src/*.c glob."""
    repo = repo or cfront.REPO
    txt = open(os.path.join(repo, "setup.py")).read()
    m = re.search(r"sources\s*=\s*\[(.*?)\]", txt, re.S)
    compiled = re.findall(r"'(src/[A-Za-z0-9_]+\.c)'", m.group(1)) if m else []
    allc = sorted("src/" + f for f in os.listdir(os.path.join(repo, "src")) if f.endswith(".c"))
    return compiled, allc


def walk(n):
    yield n
    for c in n.get("inner", ()) or ():
        if isinstance(c, dict) and c.get("kind"):
            yield from walk(c)


def strip_casts(n):
    while n.get("kind") in ("ImplicitCastExpr", "ParenExpr", "CStyleCastExpr") and n.get("inner"):
        n = n["inner"][0]
    return n


def qtype(n):
    t = n.get("type", {})
    return t.get("desugaredQualType", t.get("qualType", ""))


def callee_name(call):
    c = strip_casts(call["inner"][0])
    if c.get("kind") == "DeclRefExpr" and c.get("referencedDecl", {}).get("kind") == "FunctionDecl":
        return c["referencedDecl"]["name"]
    return None


def expr_text(n):
    """Readable rendering of an lvalue/pointer expression (for messages and mutex identification)."""
    k = n.get("kind")
    if k in ("ImplicitCastExpr", "ParenExpr", "CStyleCastExpr"):
        return expr_text(n["inner"][0])
    if k == "DeclRefExpr":
        return n.get("referencedDecl", {}).get("name", "?")
    if k == "MemberExpr":
        return expr_text(n["inner"][0]) + ("->" if n.get("isArrow") else ".") + n.get("name", "?")
    if k == "UnaryOperator":
        return n.get("opcode", "") + expr_text(n["inner"][0])
    if k == "ArraySubscriptExpr":
        return expr_text(n["inner"][0]) + "[]"
    if k == "CallExpr":
        return (callee_name(n) or "(*)") + "()"
    return k or "?"


def is_const_object(q):
    """Is the OBJECT declared with this qualType immutable (const at the top level / const elements)?"""
    q = q.strip()
    q = re.sub(r"(\[[^\]]*\])+$", "", q).strip()     # array of T: constness of T
    if "(*" in q:                                     # pointer to function / array
        return bool(re.search(r"\(\*\s*const", q))
    if "*" in q:
        return bool(re.search(r"\*\s*const\s*$", q)) or bool(re.search(r"\*\s*const\s*(__restrict|restrict)?\s*$", q))
    return bool(re.search(r"\bconst\b", q))


class Lib:
    """The library as compiled: every TU of setup.py's source list."""

    def __init__(self, repo=None, files=None):
        self.repo = repo or cfront.REPO
        if files is None:
            files, _ = library_sources(self.repo)
        self.files = list(files)
        self.tus = [cfront.tu(f, self.repo) for f in self.files]
        self.funcs = {}        # name -> [(tu, node)]
        self.protos = {}
        for t in self.tus:
            for name, node in t.functions.items():
                lst = self.funcs.setdefault(name, [])
                key = (node.get("_relfile"), node.get("_line"))
                if all((o.get("_relfile"), o.get("_line")) != key for (_t, o) in lst):
                    lst.append((t, node))
            for name, node in t.protos.items():
                self.protos.setdefault(name, node)

    def function(self, name):
        lst = self.funcs.get(name)
        return lst[0] if lst else (None, None)

    def bodies(self):
        """(tu, name, node) for every distinct function definition (header inlines counted once)."""
        for name, lst in sorted(self.funcs.items()):
            for (t, node) in lst:
                yield t, name, node


# ------------------------------------------------------------------------------------- shared variables
def local_decls(fn):
    """ids of parameters and automatic locals of a function; list of static/extern local VarDecls."""
    autos, statics = set(), []
    for n in walk(fn):
        k = n.get("kind")
        if k == "ParmVarDecl":
            autos.add(n["id"])
        elif k == "VarDecl":
            sc = n.get("storageClass")
            if sc in ("static", "extern"):
                statics.append(n)
            else:
                autos.add(n["id"])
    return autos, statics


def shared_variables(lib):
    """{key: {"name","file","line","type","const","scope"}} for every object with static storage duration defined or
    declared in the repository sources: file-scope variables (key = name, or file:name for `static`) and
    function-local statics (key = file:function:name)."""
    res = {}
    for t in lib.tus:
        for name, g in t.globals.items():
            q = qtype(g)
            sc = g.get("storageClass")
            key = "%s:%s" % (g.get("_relfile"), name) if sc == "static" else name
            ent = res.setdefault(key, {"name": name, "file": g.get("_relfile"), "line": g.get("_line"), "type": q,
                                       "const": is_const_object(q), "scope": "file", "storage": sc})
            if sc != "extern":      # prefer the defining declaration for the record
                ent.update({"file": g.get("_relfile"), "line": g.get("_line"), "type": q, "const": is_const_object(q)})
    for t, fname, fn in lib.bodies():
        _autos, statics = local_decls(fn)
        for s in statics:
            if s.get("storageClass") == "extern":
                res.setdefault(s["name"], {"name": s["name"], "file": fn.get("_relfile"), "line": s.get("_line"),
                                           "type": qtype(s), "const": is_const_object(qtype(s)), "scope": "file",
                                           "storage": "extern"})
                continue
            key = "%s:%s:%s" % (fn.get("_relfile"), fname, s["name"])
            res[key] = {"name": s["name"], "file": fn.get("_relfile"), "line": s.get("_line"), "type": qtype(s),
                        "const": is_const_object(qtype(s)), "scope": "function " + fname, "storage": "static"}
    return res


def visit_modes(n, mode, cb):
    """Walk an expression, telling the callback for every DeclRefExpr / MemberExpr / CallExpr HOW it is used:
       'r' value read, 'w' object written, 'a' address taken or array decays to a pointer that escapes,
       'wt' pointer value read and the memory it points to is written, 'n' not evaluated."""
    k = n.get("kind")
    inner = [c for c in (n.get("inner") or ()) if isinstance(c, dict) and c.get("kind")]
    if k == "DeclRefExpr":
        cb("ref", n, mode)
        return
    if k == "UnaryExprOrTypeTraitExpr":
        return
    if k == "ImplicitCastExpr":
        ck = n.get("castKind")
        if ck == "LValueToRValue":
            visit_modes(inner[0], "wt" if mode == "wt" else "r", cb)
        elif ck == "ArrayToPointerDecay":
            visit_modes(inner[0], "w" if mode == "wt" else ("n" if mode == "n" else "a"), cb)
        else:
            visit_modes(inner[0], mode, cb)
        return
    if k in ("ParenExpr", "CStyleCastExpr"):
        visit_modes(inner[0], mode, cb)
        return
    deep = "wt" if mode in ("w", "a", "wt") else "r"
    if k == "MemberExpr":
        cb("member", n, mode)
        visit_modes(inner[0], deep if n.get("isArrow") else mode, cb)
        return
    if k == "ArraySubscriptExpr":
        base, idx = inner[0], inner[1]
        if base.get("kind") == "ImplicitCastExpr" and base.get("castKind") == "ArrayToPointerDecay":
            visit_modes(base["inner"][0], mode, cb)      # element of an array object: same access as the element
        else:
            visit_modes(base, deep, cb)
        visit_modes(idx, "r", cb)
        return
    if k == "UnaryOperator":
        op = n.get("opcode")
        if op == "&":
            visit_modes(inner[0], "a" if mode != "n" else "n", cb)
        elif op == "*":
            visit_modes(inner[0], deep, cb)
        elif op in ("++", "--"):
            visit_modes(inner[0], "w", cb)
        elif op in ("__extension__", "__real", "__imag"):
            visit_modes(inner[0], mode, cb)
        else:
            visit_modes(inner[0], "r", cb)
        return
    if k == "BinaryOperator":
        op = n.get("opcode")
        if op == "=":
            visit_modes(inner[0], "w", cb)
            visit_modes(inner[1], "r", cb)
        elif op == ",":
            visit_modes(inner[0], "r", cb)
            visit_modes(inner[1], mode, cb)
        elif op in ("+", "-") and mode == "wt":
            visit_modes(inner[0], "wt", cb)
            visit_modes(inner[1], "wt", cb)
        else:
            visit_modes(inner[0], "r", cb)
            visit_modes(inner[1], "r", cb)
        return
    if k == "CompoundAssignOperator":
        visit_modes(inner[0], "w", cb)
        visit_modes(inner[1], "r", cb)
        return
    if k == "ConditionalOperator":
        visit_modes(inner[0], "r", cb)
        for c in inner[1:]:
            visit_modes(c, mode, cb)
        return
    if k == "CallExpr":
        cb("call", n, mode)
        for c in inner:
            visit_modes(c, "r", cb)
        return
    if k == "VarDecl":
        for c in inner:
            visit_modes(c, "r", cb)
        return
    for c in inner:
        visit_modes(c, "r" if mode != "n" else "n", cb)


def variable_events(lib, shared):
    """[(key, mode, function, file, line)] for every non-read use ('w','a','wt') of a shared variable in any function
    body, plus uses inside initialisers of other file-scope objects (function '<initialiser of X>')."""
    events = []

    def scan(root, fname, relfile, autos, static_ids):
        def cb(kind, n, mode):
            if kind != "ref" or mode in ("r", "n"):
                return
            d = n.get("referencedDecl", {})
            if d.get("kind") != "VarDecl":
                return
            if d["id"] in autos:
                return
            if d["id"] in static_ids:
                key = static_ids[d["id"]]
            else:
                name = d["name"]
                key = name if name in shared else "%s:%s" % (relfile, name)
                if key not in shared:
                    # static file-scope object seen from a function of the same file
                    cands = [k for k in shared if k.endswith(":" + name) and shared[k]["scope"] == "file"]
                    key = cands[0] if len(cands) == 1 else key
            events.append((key, mode, fname, relfile, n.get("_line")))
        visit_modes(root, "r", cb)

    for t, fname, fn in lib.bodies():
        autos, statics = local_decls(fn)
        sid = {s["id"]: "%s:%s:%s" % (fn.get("_relfile"), fname, s["name"]) for s in statics
               if s.get("storageClass") == "static"}
        body = t.body(fn)
        if body is not None:
            scan(body, fname, fn.get("_relfile"), autos, sid)
    seen = set()
    for t in lib.tus:
        for name, g in t.globals.items():
            if (g.get("_relfile"), name) in seen:
                continue
            seen.add((g.get("_relfile"), name))
            for c in g.get("inner", ()) or ():
                if isinstance(c, dict) and c.get("kind"):
                    scan(c, "<initialiser of %s>" % name, g.get("_relfile"), set(), {})
    return events


def called_functions(lib):
    """{function name: [(caller, file, line)]} for every function referenced (called or address taken) anywhere."""
    res = {}
    for t, fname, fn in lib.bodies():
        for n in walk(fn):
            if n.get("kind") == "DeclRefExpr" and n.get("referencedDecl", {}).get("kind") == "FunctionDecl":
                res.setdefault(n["referencedDecl"]["name"], []).append((fname, fn.get("_relfile"), n.get("_line")))
    for t in lib.tus:
        for name, g in t.globals.items():
            for n in walk(g):
                if n.get("kind") == "DeclRefExpr" and n.get("referencedDecl", {}).get("kind") == "FunctionDecl":
                    res.setdefault(n["referencedDecl"]["name"], []).append(("<initialiser of %s>" % name, g.get("_relfile"), n.get("_line")))
    return res


# ------------------------------------------------------------------------------------- write frames
MAXPATH = 5
RETURNS_ARG0 = {"memcpy", "memmove", "memset", "strcpy", "strncpy", "strcat", "strncat", "strchr", "strrchr", "strstr",
                "fgets", "strtok_r", "strpbrk", "realloc"}
SCANF_LIKE = {"sscanf", "fscanf", "scanf", "vsscanf"}
NO_WRITE_EXTERNALS = {"free", "fclose", "fflush", "close", "usleep", "pthread_mutex_lock", "pthread_mutex_unlock",
                      "pthread_mutex_init", "pthread_mutex_destroy", "pthread_join", "pthread_cancel", "fwrite",
                      "fprintf", "printf", "fputs", "puts", "fputc", "munmap", "signal", "exit", "abort", "fseek",
                      "ftell", "rewind", "feof", "ferror", "fileno"}


def ext(region, comp):
    root, path = region
    if len(path) >= MAXPATH:
        return (root, path if path[-1] == "..." else path[:MAXPATH - 1] + ("...",))
    return (root, path + (comp,))


def pointee(av):
    kind, reg = av
    if kind == "addr":
        return reg
    if kind == "val":
        return ext(reg, "*")
    return None


class Summary:
    __slots__ = ("writes", "ret", "calls", "indirect", "externals")

    def __init__(self):
        self.writes = set()      # regions with root ("P", i) or ("G", name)
        self.ret = set()         # abstract values in terms of parameters
        self.calls = set()       # library functions called (transitively)
        self.indirect = set()    # descriptions of calls through function pointers (transitively)
        self.externals = set()   # external functions called (transitively)

    def key(self):
        return (frozenset(self.writes), frozenset(self.ret), frozenset(self.calls), frozenset(self.indirect),
                frozenset(self.externals))

    def param_paths(self, i):
        return sorted(".".join(p) for (root, p) in self.writes if root == ("P", i))


class FnAnalysis:
    def __init__(self, summ, tu, name, fn):
        self.S, self.tu, self.name, self.fn = summ, tu, name, fn
        self.autos, self.statics = local_decls(fn)
        self.params = [p for p in (fn.get("inner") or ()) if isinstance(p, dict) and p.get("kind") == "ParmVarDecl"]
        self.env = {}
        for i, p in enumerate(self.params):
            self.env[p["id"]] = {("addr", (("P", i), ()))} if "*" in qtype(p) else set()
        self.out = Summary()
        self.direct_writes = []    # (region, line) written by this function's own statements

    # -- helpers
    def write(self, regs, line=None):
        for r in regs:
            if r is not None and r[0][0] in ("P", "G"):
                self.out.writes.add(r)
                self.direct_writes.append((r, line))

    def local_value(self, reg):
        root, path = reg
        vals = self.env.get(root[1], set())
        if not path:
            return set(vals)
        out = set()
        for a in vals:
            if a[0] == "val":
                r = a[1]
                for c in path:
                    r = ext(r, c)
                out.add(("val", r))
            elif a[0] == "addr" and path and path[0] == "*":
                r = a[1]
                for c in path[1:]:
                    r = ext(r, c)
                out.add(("val", r))
        return out

    def assign_local(self, reg, vals):
        root, path = reg
        if root[0] == "V" and not path and vals:
            self.env.setdefault(root[1], set()).update(v for v in vals if v[0] in ("val", "addr"))

    # -- lvalues
    def lval(self, n):
        k = n.get("kind")
        inner = [c for c in (n.get("inner") or ()) if isinstance(c, dict) and c.get("kind")]
        if k in ("ParenExpr",):
            return self.lval(inner[0])
        if k == "DeclRefExpr":
            d = n.get("referencedDecl", {})
            if d.get("kind") in ("VarDecl", "ParmVarDecl"):
                if d["id"] in self.autos:
                    return {(("V", d["id"]), ())}
                return {(("G", d["name"]), ())}
            return set()
        if k == "MemberExpr":
            if n.get("isArrow"):
                regs = {pointee(a) for a in self.rval(inner[0])}
            else:
                regs = self.lval(inner[0])
            return {ext(r, n.get("name", "?")) for r in regs if r is not None}
        if k == "ArraySubscriptExpr":
            base, idx = inner[0], inner[1]
            self.rval(idx)
            if base.get("kind") == "ImplicitCastExpr" and base.get("castKind") == "ArrayToPointerDecay":
                return self.lval(base["inner"][0])
            return {pointee(a) for a in self.rval(base)} - {None}
        if k == "UnaryOperator":
            op = n.get("opcode")
            if op == "*":
                return {pointee(a) for a in self.rval(inner[0])} - {None}
            if op in ("__extension__", "__real", "__imag"):
                return self.lval(inner[0])
            if op in ("++", "--"):
                regs = self.lval(inner[0])
                self.write(regs, n.get("_line"))
                return regs
        if k in ("ImplicitCastExpr", "CStyleCastExpr"):
            return self.lval(inner[0])
        if k == "ConditionalOperator":
            self.rval(inner[0])
            return self.lval(inner[1]) | self.lval(inner[2])
        if k == "BinaryOperator" and n.get("opcode") == ",":
            self.rval(inner[0])
            return self.lval(inner[1])
        if k == "BinaryOperator" and n.get("opcode") == "=":
            self.rval(n)
            return self.lval(inner[0])
        self.rval(n)
        return set()

    # -- rvalues (with side effects)
    def rval(self, n):
        k = n.get("kind")
        inner = [c for c in (n.get("inner") or ()) if isinstance(c, dict) and c.get("kind")]
        if k == "ImplicitCastExpr":
            ck = n.get("castKind")
            if ck == "LValueToRValue":
                out = set()
                for r in self.lval(inner[0]):
                    if r[0][0] == "V":
                        out |= self.local_value(r)
                    else:
                        out.add(("val", r))
                return out
            if ck == "ArrayToPointerDecay":
                return {("addr", r) for r in self.lval(inner[0])}
            if ck == "FunctionToPointerDecay":
                return set()
            return self.rval(inner[0])
        if k in ("ParenExpr", "CStyleCastExpr"):
            return self.rval(inner[0])
        if k == "UnaryOperator":
            op = n.get("opcode")
            if op == "&":
                return {("addr", r) for r in self.lval(inner[0])}
            if op in ("++", "--"):
                regs = self.lval(inner[0])
                self.write(regs, n.get("_line"))
                out = set()
                for r in regs:
                    out |= self.local_value(r) if r[0][0] == "V" else {("val", r)}
                return out
            if op == "*":
                out = set()
                for r in self.lval(n):
                    out |= self.local_value(r) if r[0][0] == "V" else {("val", r)}
                return out
            self.rval(inner[0])
            return set()
        if k == "BinaryOperator":
            op = n.get("opcode")
            if op == "=":
                rv = self.rval(inner[1])
                regs = self.lval(inner[0])
                self.write(regs, n.get("_line"))
                for r in regs:
                    self.assign_local(r, rv)
                return rv
            if op == ",":
                self.rval(inner[0])
                return self.rval(inner[1])
            a, b = self.rval(inner[0]), self.rval(inner[1])
            return (a | b) if op in ("+", "-") else set()
        if k == "CompoundAssignOperator":
            self.rval(inner[1])
            regs = self.lval(inner[0])
            self.write(regs, n.get("_line"))
            return set()
        if k == "ConditionalOperator":
            self.rval(inner[0])
            return self.rval(inner[1]) | self.rval(inner[2])
        if k == "CallExpr":
            return self.call(n, inner)
        if k in ("MemberExpr", "ArraySubscriptExpr", "DeclRefExpr"):
            out = set()
            for r in self.lval(n):
                out |= self.local_value(r) if r[0][0] == "V" else {("val", r)}
            return out
        if k == "UnaryExprOrTypeTraitExpr":
            return set()
        if k in ("InitListExpr", "CompoundLiteralExpr"):
            out = set()
            for c in inner:
                out |= self.rval(c)
            return out
        out = set()
        for c in inner:
            if c.get("kind", "").endswith("Stmt"):
                self.stmt(c)
            else:
                self.rval(c)
        return set()

    def call(self, n, inner):
        name = callee_name(n)
        args = inner[1:]
        avs = [self.rval(a) for a in args]
        line = n.get("_line")
        if name is None:
            tgt = strip_casts(inner[0])
            self.rval(inner[0])
            self.out.indirect.add(expr_text(tgt))
            return set()
        t, f = self.S.lib.function(name)
        if f is not None:
            cs = self.S.get(name)
            self.out.calls.add(name)
            self.out.calls |= cs.calls
            self.out.indirect |= cs.indirect
            self.out.externals |= cs.externals
            for (root, path) in cs.writes:
                if root[0] == "G":
                    self.write({(root, path)}, line)
                elif root[0] == "P" and root[1] < len(avs):
                    for a in avs[root[1]]:
                        r = pointee(a)
                        if r is None:
                            continue
                        for c in path:
                            r = ext(r, c)
                        self.write({r}, line)
            out = set()
            for (kind, (root, path)) in cs.ret:
                if root[0] == "G":
                    out.add((kind, (root, path)))
                elif root[0] == "P" and root[1] < len(avs):
                    for a in avs[root[1]]:
                        r = pointee(a)
                        if r is None:
                            continue
                        for c in path:
                            r = ext(r, c)
                        out.add((kind, r))
            return out
        # external function
        self.out.externals.add(name)
        if name not in NO_WRITE_EXTERNALS:
            proto = self.S.lib.protos.get(name)
            ptypes = [qtype(p) for p in (proto.get("inner") or ()) if isinstance(p, dict) and p.get("kind") == "ParmVarDecl"] if proto else []
            for j, a in enumerate(avs):
                if j < len(ptypes):
                    q = ptypes[j]
                    if "*" not in q or re.match(r"^\s*const\b", q) or re.search(r"\bconst\s+[\w ]+\*", q) or "FILE" in q:
                        continue
                elif name not in SCANF_LIKE:
                    continue
                self.write({pointee(x) for x in a} - {None}, line)
        if name in RETURNS_ARG0 and avs:
            return set(avs[0])
        return set()

    # -- statements (flow-insensitive)
    def stmt(self, n):
        k = n.get("kind")
        inner = [c for c in (n.get("inner") or ()) if isinstance(c, dict) and c.get("kind")]
        if k == "DeclStmt":
            for d in inner:
                if d.get("kind") == "VarDecl":
                    init = [c for c in (d.get("inner") or ()) if isinstance(c, dict) and c.get("kind")]
                    for c in init:
                        rv = self.rval(c)
                        if d["id"] in self.autos:
                            self.env.setdefault(d["id"], set()).update(v for v in rv if v[0] in ("val", "addr"))
            return
        if k == "ReturnStmt":
            for c in inner:
                self.out.ret |= {v for v in self.rval(c) if v[1][0][0] in ("P", "G")}
            return
        for c in inner:
            if c.get("kind", "").endswith("Stmt"):
                self.stmt(c)
            else:
                self.rval(c)

    def run(self):
        body = self.tu.body(self.fn)
        if body is None:
            return self.out
        for _ in range(3):
            before = (len(self.out.writes), sum(len(v) for v in self.env.values()))
            self.direct_writes = []
            self.stmt(body)
            if (len(self.out.writes), sum(len(v) for v in self.env.values())) == before:
                break
        return self.out


class Summaries:
    """Write-frame summaries, computed on demand to a fixed point over the call graph reachable from the roots."""

    def __init__(self, lib):
        self.lib = lib
        self.sum = {}
        self.analyses = {}

    def get(self, name):
        return self.sum.get(name) or Summary()

    def reachable(self, roots):
        seen, todo = [], list(roots)
        while todo:
            f = todo.pop()
            if f in seen:
                continue
            t, node = self.lib.function(f)
            if node is None:
                continue
            seen.append(f)
            for n in walk(node):
                if n.get("kind") == "CallExpr":
                    c = callee_name(n)
                    if c and c not in seen and c in self.lib.funcs:
                        todo.append(c)
        return seen

    def compute(self, roots, max_rounds=12):
        fns = self.reachable(roots)
        # callees first (approximately): reverse discovery order
        order = list(reversed(fns))
        for rnd in range(max_rounds):
            changed = False
            for f in order:
                t, node = self.lib.function(f)
                a = FnAnalysis(self, t, f, node)
                s = a.run()
                self.analyses[f] = a
                if f not in self.sum or self.sum[f].key() != s.key():
                    changed = True
                self.sum[f] = s
            if not changed:
                return rnd + 1
        raise RuntimeError("write-frame summaries did not stabilise in %d rounds" % max_rounds)


# ------------------------------------------------------------------------------------- lock flow
LOCK_FUNCS = {"pthread_mutex_lock": "lock", "pthread_mutex_unlock": "unlock", "pthread_mutex_trylock": "trylock"}
SIM_PTR = re.compile(r"^(const )?struct reb_simulation \*")


def join(a, b):
    if a is None:
        return b
    if b is None:
        return a
    return frozenset(a | b)


class LockFlow:
    """held(mutex) through one function body.  mutex_pred(expr_node) selects the lock operations to track.
    `assume` maps a member name (e.g. 'server_data', 'mutex_locked_by_integrate') to the truth value that conditions
    testing that member are assumed to have (case split done by the caller)."""

    def __init__(self, tu, fn, mutex_pred, assume=None, start=frozenset([0])):
        self.tu, self.fn, self.mutex_pred, self.assume = tu, fn, mutex_pred, assume or {}
        self.start = start
        self.events = {}        # (line, kind, what, node id) -> set of held values
        self.problems = set()
        self.exits = []         # (line, held-set) at returns / end of body
        self.labels = {}
        self.lock_ops = []

    # truth value of a condition under the assumptions (None = unknown)
    def truth(self, c):
        c = strip_casts(c)
        k = c.get("kind")
        if k == "IntegerLiteral":
            return c.get("value") != "0"
        if k == "UnaryOperator" and c.get("opcode") == "!":
            t = self.truth(c["inner"][0])
            return None if t is None else (not t)
        if k == "MemberExpr" and c.get("name") in self.assume:
            return self.assume[c["name"]]
        if k == "BinaryOperator" and c.get("opcode") in ("!=", "=="):
            a, b = strip_casts(c["inner"][0]), strip_casts(c["inner"][1])
            for x, y in ((a, b), (b, a)):
                if x.get("kind") == "MemberExpr" and x.get("name") in self.assume and \
                        (y.get("kind") == "IntegerLiteral" and y.get("value") == "0" or y.get("kind") == "GNUNullExpr"):
                    v = self.assume[x["name"]]
                    return v if c["opcode"] == "!=" else (not v)
        return None

    def record(self, kind, what, n, S):
        key = (n.get("_line"), kind, what, n.get("id"))
        self.events.setdefault(key, set()).update(S)

    def expr(self, n, S):
        """Events of one full expression, then its lock operations."""
        if S is None or not n.get("kind"):
            return S
        ops = []

        def cb(kind, x, mode):
            if kind == "member" and x.get("isArrow") and SIM_PTR.match(qtype(x["inner"][0])):
                m = "write" if mode == "w" else "addr" if mode == "a" else "write-through" if mode == "wt" else "read"
                if mode != "n":
                    self.record(m, x.get("name"), x, S)
            elif kind == "call":
                name = callee_name(x)
                args = [c for c in (x.get("inner") or ())[1:] if isinstance(c, dict)]
                if name in LOCK_FUNCS and args and self.mutex_pred(args[0]):
                    ops.append((LOCK_FUNCS[name], x))
                    return
                if any(SIM_PTR.match(qtype(a)) for a in args):
                    self.record("call", name or ("(*%s)" % expr_text(strip_casts(x["inner"][0]))), x, S)

        visit_modes(n, "r", cb)
        for op, x in ops:
            self.lock_ops.append((op, x.get("_line")))
            if op == "lock":
                if S != frozenset([0]):
                    self.problems.add("line %s: lock while mutex possibly held %s" % (x.get("_line"), sorted(S)))
                S = frozenset([1])
            elif op == "unlock":
                if S != frozenset([1]):
                    self.problems.add("line %s: unlock while mutex possibly not held %s" % (x.get("_line"), sorted(S)))
                S = frozenset([0])
            else:
                self.problems.add("line %s: trylock not modelled" % x.get("_line"))
                S = frozenset([0, 1])
        return S

    def stmt(self, n, S, ctx):
        k = n.get("kind")
        if not k:
            return S
        inner = [c for c in (n.get("inner") or ()) if isinstance(c, dict)]
        if k == "LabelStmt":
            S = join(S, self.labels.get(n.get("declId")))
            self.labels[n.get("declId")] = S
            for c in inner:
                S = self.stmt(c, S, ctx)
            return S
        if k in ("CaseStmt", "DefaultStmt"):
            S = join(S, ctx.get("switch_entry"))
            subs = [c for c in inner if c.get("kind") and c.get("kind") != "ConstantExpr"]
            for c in subs:
                S = self.stmt(c, S, ctx)
            return S
        if k == "CompoundStmt":
            for c in inner:
                S = self.stmt(c, S, ctx)
            return S
        if S is None and not self._has_label(n):
            return None          # unreachable and nothing inside can be jumped to
        if k == "IfStmt":
            cond = inner[0]
            S = self.expr(cond, S)
            t = self.truth(cond)
            then = inner[1] if len(inner) > 1 else None
            els = inner[2] if len(inner) > 2 else None
            st = self.stmt(then, S, ctx) if (then is not None and t is not False) else None
            if t is False and then is not None:
                st = self.stmt(then, None, ctx)
            if t is True:
                se = self.stmt(els, None, ctx) if els is not None else None
            else:
                se = self.stmt(els, S, ctx) if els is not None else S
            return join(st, se)
        if k in ("WhileStmt", "ForStmt", "DoStmt"):
            if k == "WhileStmt":
                init, cond, inc, body = None, inner[0], None, inner[-1]
            elif k == "DoStmt":
                init, cond, inc, body = None, inner[1], None, inner[0]
            else:
                parts = list(n.get("inner") or ())
                parts = parts + [{}] * (5 - len(parts))
                init, cond, inc, body = parts[0], parts[2], parts[3], parts[4]
            if init is not None and init.get("kind"):
                S = self.stmt(init, S, ctx) if init["kind"].endswith("Stmt") else self.expr(init, S)
            head = S
            exit_state = None
            for _ in range(6):
                c2 = dict(ctx)
                c2["breaks"], c2["continues"] = [], []
                c2.pop("switch_entry", None)
                if k == "DoStmt":
                    sb = self.stmt(body, head, c2)
                    sb = join(sb, _joinall(c2["continues"]))
                    sc = self.expr(cond, sb) if cond is not None and cond.get("kind") else sb
                    t = self.truth(cond) if cond is not None and cond.get("kind") else True
                    back = sc if t is not False else None
                    out = sc if t is not True else None
                else:
                    sc = self.expr(cond, head) if cond is not None and cond.get("kind") else head
                    t = self.truth(cond) if cond is not None and cond.get("kind") else True
                    out = sc if t is not True else None
                    sb = self.stmt(body, sc, c2) if t is not False else None
                    sb = join(sb, _joinall(c2["continues"]))
                    if inc is not None and inc.get("kind") and sb is not None:
                        sb = self.expr(inc, sb)
                    back = sb
                exit_state = join(out, _joinall(c2["breaks"]))
                new_head = join(head, back)
                if new_head == head:
                    break
                head = new_head
            return exit_state
        if k == "SwitchStmt":
            S = self.expr(inner[0], S)
            c2 = dict(ctx)
            c2["breaks"] = []
            c2["switch_entry"] = S
            body = inner[-1]
            out = self.stmt(body, None, c2)
            has_default = any(x.get("kind") == "DefaultStmt" for x in walk(body))
            res = join(out, _joinall(c2["breaks"]))
            return res if has_default else join(res, S)
        if k == "BreakStmt":
            ctx["breaks"].append(S)
            return None
        if k == "ContinueStmt":
            ctx["continues"].append(S)
            return None
        if k == "ReturnStmt":
            for c in inner:
                S = self.expr(c, S)
            if S is not None:
                self.exits.append((n.get("_line"), S))
            return None
        if k == "GotoStmt":
            lid = n.get("targetLabelDeclId")
            self.labels[lid] = join(self.labels.get(lid), S)
            return None
        if k == "DeclStmt":
            for d in inner:
                S = self.expr(d, S)
            return S
        if k in ("NullStmt",):
            return S
        if k == "AttributedStmt":
            for c in inner:
                S = self.stmt(c, S, ctx)
            return S
        return self.expr(n, S)

    def _has_label(self, n):
        return any(x.get("kind") in ("LabelStmt", "CaseStmt", "DefaultStmt") for x in walk(n))

    def run(self):
        body = self.tu.body(self.fn)
        for _ in range(4):
            before = dict(self.labels)
            self.exits, self.lock_ops = [], []
            ctx = {"breaks": [], "continues": []}
            S = self.stmt(body, self.start, ctx)
            if S is not None:
                self.exits.append((self.fn.get("_endline"), S))
            if self.labels == before:
                break
        return self


def _joinall(states):
    S = None
    for s in states:
        S = join(S, s)
    return S
