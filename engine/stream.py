"""stream -- models of FILE streams and raw byte buffers for the symbolic executor (mixin).

FILE:  a ghost object with cursor `pos` and length `size` (both z3 Int terms; `size` symbolic = arbitrary
truncation point).  Content is an uninterpreted function of (file, position, leaf): reading the same bytes twice
yields the same value.  fread of n items of size s returns the number of COMPLETE items that fit before `size`;
the destination of an incomplete item is havocked (so code that looks at it after a failed read is caught).
Byte buffers (char* + offset) cast to `struct T*` are read through the same kind of content function.
"""
import z3
from .mem import Ptr, NULL, Opaque, FuncRef, Cell, StructObj, ArrObj
from .csym import Unsupported, is_z3, simp, const_int, as_bool, as_int, as_real, sort_of


class FileObj:
    kind = "file"

    def __init__(self, name, size=None):
        from .mem import _ids
        self.id = next(_ids)
        self.name = name
        self.pos = z3.IntVal(0)
        self.size = size if size is not None else z3.Int(name + "!size")
        self.closed = False
        self.seek_fails = None

    def clone(self):
        c = FileObj.__new__(FileObj)
        c.__dict__.update(self.__dict__)
        return c


class View:
    """path item: a typed view of `ctype` at byte offset `pos` of a byte buffer"""
    __slots__ = ("ctype", "pos")

    def __init__(self, ctype, pos):
        self.ctype, self.pos = ctype, pos

    def __repr__(self):
        return "view<%r>@%s" % (self.ctype, self.pos)


class ByteOff:
    """path item: byte offset `off` (python int) into the struct/array object designated by the path so far --
    the C idiom (char*)r + offsetof(...)"""
    __slots__ = ("off",)

    def __init__(self, off):
        self.off = off

    def __repr__(self):
        return "+%dB" % self.off


class StreamMixin:
    # ------------------------------------------------------------------ (char*)obj + k  -> member
    def byte_view(self, st, p):
        """(char*)p for a pointer that designates a struct object"""
        tgt = self.peek(st, p)
        if isinstance(tgt, StructObj) and (not p.path or not isinstance(p.path[-1], (ByteOff, View))):
            return Ptr(p.obj, p.path + (ByteOff(0),), p.null)
        return None

    def resolve_byteoff(self, st, p, want=None, size=None):
        """Ptr(..., ByteOff(k)) -> Ptr to the member that starts at byte k (descending into nested structs).
        `want` = CType the caller is going to access it as (disambiguates a struct from its first member)."""
        bo = p.path[-1]
        base = Ptr(p.obj, p.path[:-1], p.null)
        tgt = self.peek(st, base)
        if not isinstance(tgt, StructObj):
            raise Unsupported("byte offset into non-struct")
        k = bo.off
        t = tgt.ctype
        path = []
        while True:
            if t.kind not in ("struct", "union"):
                raise Unsupported("byte offset %d does not designate a member start" % bo.off)
            off = 0
            hit = None
            for (fname, q, _i) in self.records(t.name):
                ft = self.ctype(q)
                sz, al = self.tu0._size_align(ft)
                off = (off + al - 1) // al * al
                if off <= k < off + max(sz, 1):
                    hit = (fname, ft, off, sz)
                    break
                off += sz
            if hit is None:
                raise Unsupported("byte offset %d outside %r" % (bo.off, t))
            fname, ft, off, sz = hit
            path.append(fname)
            k -= off
            if k == 0:
                if ft.kind not in ("struct", "union"):
                    break                                    # scalar / pointer / array member: cannot descend
                if want is None or (want.kind == ft.kind and want.name == ft.name):
                    break                                    # the struct member itself is meant
            t = ft
        # access of `size` bytes: the innermost first member of that size is meant (struct and its first member share the offset)
        while size is not None and ft.kind == "struct" and self.sizeof(ft) != size:
            fname, q, _i = self.records(ft.name)[0]
            path.append(fname)
            ft = self.ctype(q)
        return Ptr(p.obj, p.path[:-1] + tuple(path), p.null), ft

    # ------------------------------------------------------------------ content functions
    def content(self, srcname, leaf, ctype, pos):
        pre = getattr(self, "content_presets", None)
        if pre:
            cp = const_int(pos)
            key = (srcname, ".".join(str(x) for x in leaf), cp)
            if cp is not None and key in pre:
                return pre[key]
        srt = z3.RealSort() if ctype.kind == "float" else z3.IntSort()
        f = self.uf("content_%s_%s" % (srcname, ".".join(str(x) for x in leaf) or "v"), z3.IntSort(), srt)
        return f(as_int(pos))

    def value_from_content(self, srcname, ctype, pos, prefix=()):
        k = ctype.kind
        if k in ("int", "enum", "float"):
            return self.content(srcname, (repr(ctype),) + prefix if not prefix else prefix, ctype, pos)
        if k == "ptr":
            return Opaque("ptr-from-bytes", tag=z3.BoolVal(True))
        if k in ("struct", "union"):
            s = StructObj(ctype, {})
            off = 0
            for (fname, q, _i) in self.records(ctype.name):
                ft = self.ctype(q)
                sz, al = self.tu0._size_align(ft)
                off = (off + al - 1) // al * al
                s.fields[fname] = self.value_from_content(srcname, ft, simp(as_int(pos) + off), (ctype.name, fname))
                off += sz
            return s
        if k == "array":
            a = ArrObj(ctype.to, ctype.n, "list")
            esz = self.sizeof(ctype.to)
            a.items = [self.value_from_content(srcname, ctype.to, simp(as_int(pos) + i * esz), prefix + (i,)) for i in range(ctype.n or 0)]
            return a
        raise Unsupported("content of %r" % (ctype,))

    # ------------------------------------------------------------------ FILE
    def new_file(self, st, name, size=None, maybe_null=False):
        f = FileObj(name, size)
        st.mem.objs[f.id] = f
        return Ptr(f.id, (), z3.Bool(name + "!isnull") if maybe_null else False)

    def _file(self, st, p, n, what):
        if not isinstance(p, Ptr) or p.obj is None:
            self.oblige(st, "%s.stream_nonnull@%s" % (what, self._where(n)), z3.BoolVal(False), "mem", n)
            raise Unsupported("%s on NULL/unknown stream %r" % (what, p))
        if p.null is not False and p.null is not True:
            self.check_then_assume(st, "%s.stream_nonnull@%s" % (what, self._where(n)), z3.Not(p.null), "mem", n)
        f = st.mem.get(p.obj)
        if not isinstance(f, FileObj):
            raise Unsupported("%s on non-stream object" % what)
        if f.closed is not False:
            c = f.closed if is_z3(f.closed) else z3.BoolVal(True)
            self.check_then_assume(st, "%s.stream_open@%s" % (what, self._where(n)), z3.Not(c), "heap", n)
        return f

    def bi_fread(self, st, args, n):
        dst, size, nmemb, fp = args
        f = self._file(st, fp, n, "fread")
        size, nmemb = as_int(size), as_int(nmemb)
        total = simp(size * nmemb)
        fits = simp(z3.And(f.pos >= 0, f.pos + total <= f.size))
        if not z3.is_true(fits) and not z3.is_false(fits):
            # keep terms small: decide `fits` from the path condition when it is determined
            sol = z3.Solver()
            sol.set("timeout", 500)
            for h in st.hyps():
                sol.add(h)
            sol.push()
            sol.add(z3.Not(fits))
            if sol.check() == z3.unsat:
                fits = z3.BoolVal(True)
            else:
                sol.pop()
                sol.add(fits)
                if sol.check() == z3.unsat:
                    fits = z3.BoolVal(False)
        cn = const_int(nmemb)
        old = f.pos
        # destination
        if isinstance(dst, Ptr) and dst.obj is not None and dst.path and isinstance(dst.path[-1], ByteOff):
            dst, _ft = self.resolve_byteoff(st, dst, size=const_int(total))
            st.trace = st.trace + [("fread_into_member", tuple(str(x) for x in dst.path), total)]
        if isinstance(dst, Ptr) and dst.obj is not None:
            tgt = self.peek(st, dst)
            o = st.mem.get(dst.obj)
            if isinstance(tgt, StructObj):
                val = self.value_from_content(f.name, tgt.ctype, old)
                hav = self._havoc_value(val, tgt.ctype, "shortread_%s" % (tgt.name or "obj"))
                self.write(st, dst, self.ite(fits, val, hav), n)
            elif is_z3(tgt):
                # scalar destination (double / int) -- the type comes from the pointee cell / leaf
                ct = self._pointee_type(st, dst)
                val = self.value_from_content(f.name, ct, old)
                hav = self.fresh("shortread", val.sort())
                self.write(st, dst, z3.If(fits, val, hav), n)
            elif isinstance(tgt, ArrObj) and tgt.mode == "list":
                for i in range(len(tgt.items)):
                    if is_z3(tgt.items[i]):
                        tgt.items[i] = self.fresh("fread_%s_%d" % (tgt.name or "buf", i), tgt.items[i].sort())
            elif isinstance(o, ArrObj) and o.mode == "sym":
                # bulk read into a heap block: all leaves become fresh (content not tracked element-wise)
                for leaf in list(o.leaf_types):
                    old_a = self._leaf_array(o, leaf)
                    o.leaves[leaf] = z3.Const("%s_fread%d" % (o.name, next(self.fresh_n)), old_a.sort())
                if o.length is not None and o.elem is not None and dst.path and not isinstance(dst.path[-1], str):
                    esz = self.sizeof(o.elem)
                    self.check_then_assume(st, "fread.dst_inbounds@%s" % self._where(n),
                                           z3.And(as_int(dst.path[-1]) >= 0, as_int(dst.path[-1]) * esz + total <= as_int(o.length) * esz), "mem", n)
            elif tgt is None or isinstance(tgt, (Opaque,)):
                pass
            else:
                raise Unsupported("fread destination %r" % (tgt,))
        self._logw(st, f.id, ("pos",))
        # cursor and return value
        # C11 7.21.8.1: "If size or nmemb is zero, fread returns zero" (and reads nothing)
        if cn == 1:
            f.pos = simp(z3.If(fits, old + total, z3.If(f.size > old, f.size, old)))
            return simp(z3.If(z3.And(fits, size > 0), z3.IntVal(1), z3.IntVal(0)))
        k = self.fresh("fread_items", z3.IntSort())
        st.assume(z3.And(k >= 0, k <= nmemb, z3.Implies(z3.And(fits, size > 0), k == nmemb), z3.Implies(z3.Not(fits), k < nmemb),
                         z3.Implies(size == 0, k == 0)))
        f.pos = simp(z3.If(fits, old + total, z3.If(f.size > old, f.size, old)))
        return k

    def _pointee_type(self, st, p):
        o = st.mem.get(p.obj)
        t = getattr(o, "ctype", None)
        path = list(p.path)
        if isinstance(o, ArrObj):
            t = o.elem
            if path and not isinstance(path[0], str):
                path = path[1:]
            for item in path:
                t = self.field_type(t.name, item) if isinstance(item, str) else t.to
            return t
        for item in path:
            if isinstance(item, str):
                t = self.field_type(t.name, item)
            else:
                t = t.to
        return t

    def bi_fseek(self, st, args, n):
        fp, off, whence = args
        f = self._file(st, fp, n, "fseek")
        w = const_int(whence)
        off = as_int(off)
        if w == 0:
            tgt = off
        elif w == 1:
            tgt = simp(f.pos + off)
        elif w == 2:
            tgt = simp(f.size + off)
        else:
            raise Unsupported("fseek whence")
        ok = self.fresh("fseek_ok", z3.BoolSort())
        # regular files: seeking to any non-negative offset succeeds; memory streams fail beyond the end.
        st.assume(z3.Implies(z3.And(tgt >= 0, tgt <= f.size), ok))
        st.assume(z3.Implies(tgt < 0, z3.Not(ok)))
        if getattr(self, "fseek_regular_file", False):
            st.assume(z3.Implies(tgt >= 0, ok))          # regular files: any non-negative offset can be sought
        f.pos = simp(z3.If(ok, tgt, f.pos))
        self._logw(st, f.id, ("pos",))
        return z3.If(ok, z3.IntVal(0), z3.IntVal(-1))

    def bi_ftell(self, st, args, n):
        f = self._file(st, args[0], n, "ftell")
        return f.pos

    def bi_fclose(self, st, args, n):
        f = self._file(st, args[0], n, "fclose")
        f.closed = True
        self._logw(st, f.id, ("closed",))
        return z3.IntVal(0)

    def bi_stat(self, st, args, n):
        return self.fresh("stat_ret", z3.IntSort())

    def bi_fopen(self, st, args, n):
        return self.new_file(st, "fopen%d" % next(self.fresh_n), maybe_null=True)

    bi_reb_fmemopen = bi_fopen

    def bi_fwrite(self, st, args, n):
        src, size, nmemb, fp = args
        f = self._file(st, fp, n, "fwrite")
        snap = None
        if isinstance(src, Ptr) and src.obj is not None:
            tgt = self.peek(st, src)
            if isinstance(tgt, StructObj):
                snap = self._detach(tgt, st)          # value of the struct at the time of the write
        st.trace = st.trace + [("fwrite", f.name, f.pos, simp(as_int(size) * as_int(nmemb)), src, snap)]
        self._logw(st, f.id, ("pos",))
        f.pos = simp(f.pos + as_int(size) * as_int(nmemb))
        f.size = simp(z3.If(f.pos > f.size, f.pos, f.size))
        return as_int(nmemb)

    # ------------------------------------------------------------------ strings (opaque)
    def _havoc_chars(self, st, p):
        if isinstance(p, Ptr) and p.obj is not None:
            tgt = self.peek(st, Ptr(p.obj, p.path[:-1])) if p.path and not isinstance(p.path[-1], str) else self.peek(st, p)
            if isinstance(tgt, ArrObj) and tgt.mode == "list":
                tgt.items = [self.fresh("chr", z3.IntSort()) for _ in tgt.items]

    def bi_sprintf(self, st, args, n):
        self._havoc_chars(st, args[0])
        return self.fresh("sprintf_ret", z3.IntSort())

    bi_snprintf = bi_sprintf
    bi_strcpy = bi_sprintf
    bi_strncpy = bi_sprintf
    bi_strcat = bi_sprintf

    def bi_atoi(self, st, args, n):
        return self.fresh("atoi", z3.IntSort())

    def bi_strlen(self, st, args, n):
        k = self.fresh("strlen", z3.IntSort())
        st.assume(k >= 0)
        return k

    def bi_strcmp(self, st, args, n):
        a, b = args[0], args[1]
        if isinstance(a, Opaque) and isinstance(b, Opaque) and a.what == "str" and b.what == "str":
            return z3.IntVal(0 if a.tag == b.tag else 1)
        h = st.ghost.get("strcmp")
        if h is not None:
            return h(self, st, args)
        return self.fresh("strcmp", z3.IntSort())

    bi_strncmp = bi_strcmp

    def bi_strstr(self, st, args, n):
        """strstr(haystack, needle): decided by the pack's ghost handler (returns the z3 Bool 'needle occurs in haystack');
        the result is a pointer into the haystack that is NULL exactly when it does not occur"""
        h = st.ghost.get("strstr")
        if h is None:
            raise Unsupported("strstr without a string model")
        found = h(self, st, args)
        a = ArrObj(None, None, "sym", "strstr%d" % next(self.fresh_n))
        a.leaves, a.leaf_types = {}, {}
        st.mem.add(a)
        return Ptr(a.id, (z3.IntVal(0),), simp(z3.Not(found)))

    # ------------------------------------------------------------------ byte buffers with typed views
    def new_bytebuf(self, st, name, size=None):
        from .cfront import CType
        a = ArrObj(CType("int", signed=True, bits=8, name="char"), size, "sym", name)
        a.leaves = {}
        a.leaf_types = {(): a.elem}
        a.is_bytes = True
        st.mem.add(a)
        return Ptr(a.id, (z3.IntVal(0),), False)

    def view_cast(self, st, p, to):
        """(struct T*)(buf + pos) on a byte buffer -> pointer whose pointee is read through the content function"""
        o = st.mem.objs.get(p.obj)
        if isinstance(o, ArrObj) and getattr(o, "is_bytes", False) and len(p.path) == 1 and not isinstance(p.path[0], (str, View)):
            if to.kind in ("struct", "union", "float") or (to.kind == "int" and to.bits > 8):
                return Ptr(p.obj, (View(to, as_int(p.path[0])),), p.null)
        return None

    def read_view(self, st, arr, view, rest, node):
        if arr.length is not None and self.check_defined:
            sz = self.sizeof(view.ctype)
            self.check_then_assume(st, "view.inbounds@%s" % self._where(node),
                                   z3.And(view.pos >= 0, view.pos + sz <= as_int(arr.length)), "mem", node)
        v = self.value_from_content(arr.name, view.ctype, view.pos)
        for item in rest:
            if isinstance(v, StructObj) and isinstance(item, str):
                v = v.fields[item]
            elif isinstance(v, ArrObj) and const_int(item) is not None:
                v = v.items[const_int(item)]
            else:
                raise Unsupported("path %r through a byte view" % (item,))
        return v

    def bi_memcmp(self, st, args, n):
        a, b, cnt = args
        if isinstance(a, Ptr) and isinstance(b, Ptr) and a.obj is not None and b.obj is not None:
            oa, ob = st.mem.objs.get(a.obj), st.mem.objs.get(b.obj)
            if isinstance(oa, ArrObj) and isinstance(ob, ArrObj) and getattr(oa, "is_bytes", False) and getattr(ob, "is_bytes", False):
                f = self.uf("memcmp_%s_%s" % (oa.name, ob.name), z3.IntSort(), z3.IntSort(), z3.IntSort(), z3.IntSort())
                pa = a.path[0].pos if isinstance(a.path[0], View) else as_int(a.path[0])
                pb = b.path[0].pos if isinstance(b.path[0], View) else as_int(b.path[0])
                cnt = as_int(cnt)
                for nm, arr, pp in (("a", oa, pa), ("b", ob, pb)):
                    if arr.length is not None and self.check_defined:
                        self.check_then_assume(st, "memcmp.%s_inbounds@%s" % (nm, self._where(n)),
                                               z3.And(pp >= 0, pp + cnt <= as_int(arr.length)), "mem", n)
                return f(pa, pb, cnt)
        h = st.ghost.get("memcmp")
        if h is not None:
            return h(self, st, args)
        return self.fresh("memcmp", z3.IntSort())
