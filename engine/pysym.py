"""pysym -- VC generation for the pure subset of Python, on the REAL source text read with `ast` on every run.

Supported subset (anything else raises PyUnsupported, which the driver reports as a checker problem, never as a proof):
  module level : import / from-import (names become opaque externals; `from .x import f` loads the sibling real
                 module), def, class (methods, property setters), NAME = expression (evaluated on demand)
  statements   : assignment (names, tuple unpacking, attributes of heap objects), augmented assignment, if/elif/else,
                 for over a concrete sequence / over an abstract sequence (body run on ONE arbitrary element), return,
                 raise, pass, expression statements (calls)
  expressions  : numbers, strings, None, True/False, names, tuples/lists, dict literals, + - * / ** (integer
                 literal exponent), unary - / not, comparisons (== != < <= > >= is / is not None, in / not in),
                 and / or, x if c else y, subscripts (dict lookup, tuple index), attribute access, calls of module
                 functions (inlined), methods of heap objects, len, isinstance(x, dict), str.lower(), dict.keys() /
                 .values(), math.sqrt of a concrete value, externals registered by the pack.

Assumed Python semantics (packs repeat these in P.assume):
  * floats are mathematical reals whenever a symbolic operand is involved (R-mode); arithmetic on two concrete numbers
    is done by Python itself (true float semantics) -- used for the exhaustive ground checks;
  * d[k] for a dict literal d: raises KeyError unless k equals one of the literal's keys (obligation `def.key@line`),
    otherwise yields the value written next to that key -- always the same one for the same key.  In symbolic-table
    mode each value of a module-level table is a positive symbolic real named after its key, so what is proved
    holds for any (positive) table contents;
  * x / y raises ZeroDivisionError iff y == 0: obligation `def.div@line`, then y != 0 is assumed;
  * strings are elements of an uninterpreted sort; distinct literals are distinct; s.lower() is an uninterpreted function
    with lower(literal) computed by Python itself; `s in d` is the disjunction s == key over the literal's keys;
  * module-level tables and functions are not rebound or mutated at run time.
Paths: an `if` on an undecided condition forks; infeasible sides are pruned with z3.  A call returns the list of
outcomes (path condition, 'return' | 'raise', value, heap).
"""
import ast, os, math, itertools
from fractions import Fraction
import z3
from . import cfront
from .csym import Obligation, Unsupported

STR = z3.DeclareSort("PyStr")
LOWER = z3.Function("py_lower", STR, STR)


class PyUnsupported(Unsupported):
    pass


def selector(table_name):
    """value selector of a module-level table for symbolic keys: selector(t)(k) is `t[k]`"""
    return z3.Function("%s[]" % table_name, STR, z3.RealSort())


class Ref:
    """reference to a heap object (attributes live in State.heap[id])"""
    __slots__ = ("id", "name", "cls")

    def __init__(self, id_, name, cls=None):
        self.id, self.name, self.cls = id_, name, cls

    def __repr__(self):
        return "<obj %s>" % self.name


class Exc:
    def __init__(self, typ, msg=""):
        self.typ, self.msg = typ, msg

    def __repr__(self):
        return "%s(%s)" % (self.typ, str(self.msg)[:40])


class Func:
    def __init__(self, node, module, cls=None):
        self.node, self.module, self.cls = node, module, cls
        self.name = node.name


class Bound:
    def __init__(self, func, self_value):
        self.func, self.self_value = func, self_value


class Ext:
    """opaque external (imported module / attribute chain of one)"""

    def __init__(self, name):
        self.name = name

    def __repr__(self):
        return "<ext %s>" % self.name


class Method:
    """builtin method of a builtin value: (receiver, name)"""

    def __init__(self, recv, name):
        self.recv, self.name = recv, name


class DictV:
    """a dict literal: ordered concrete string keys, values (concrete or z3)"""

    def __init__(self, keys, values, name=None):
        self.keys, self.values, self.name = list(keys), list(values), name

    def get(self, k):
        return self.values[self.keys.index(k)]


class SeqAny:
    """sequence of unknown length; iteration runs the body once on an arbitrary element made by `make(state)`"""

    def __init__(self, make, name="seq"):
        self.make, self.name = make, name


class ClassV:
    def __init__(self, node, module):
        self.node, self.module, self.name = node, module, node.name
        self.methods, self.setters = {}, {}
        for s in node.body:
            if isinstance(s, ast.FunctionDef):
                decs = [ast.unparse(d) for d in s.decorator_list]
                if any(d.endswith(".setter") for d in decs):
                    self.setters[s.name] = Func(s, module, self)
                elif "property" in decs:
                    self.methods.setdefault("get:" + s.name, Func(s, module, self))
                else:
                    self.methods[s.name] = Func(s, module, self)


class State:
    def __init__(self):
        self.env = {}
        self.heap = {}
        self.pc = []
        self.writes = []         # (object name, attribute) in program order
        self.ext_stores = []     # attribute stores on externals (ignored, listed)
        self.foreach = []        # abstract for-each loops executed on one arbitrary element

    def fork(self):
        s = State()
        s.env = dict(self.env)
        s.heap = {k: dict(v) for k, v in self.heap.items()}
        s.pc = list(self.pc)
        s.writes = list(self.writes)
        s.ext_stores = list(self.ext_stores)
        s.foreach = list(self.foreach)
        return s


class Outcome:
    def __init__(self, st, kind, value):
        self.st, self.kind, self.value = st, kind, value
        self.pc, self.heap = st.pc, st.heap

    def attr(self, ref, name):
        return self.st.heap[ref.id][name]


class _Raise(Exception):
    def __init__(self, exc):
        self.exc = exc


_MODULES = {}


def module(relpath, repo=None):
    repo = repo or cfront.REPO
    key = (repo, relpath)
    path = os.path.join(repo, relpath)
    st = os.stat(path)
    sig = (st.st_mtime_ns, st.st_size)
    m = _MODULES.get(key)
    if m is None or m.sig != sig:
        m = _MODULES[key] = Module(relpath, repo)
        m.sig = sig
    return m


class Module:
    """The real file, parsed now.  Nothing is imported or executed by CPython."""

    def __init__(self, relpath, repo=None):
        self.repo = repo or cfront.REPO
        self.relpath = relpath
        self.path = os.path.join(self.repo, relpath)
        self.src = open(self.path).read()
        self.tree = ast.parse(self.src, self.path)
        self.functions, self.classes, self.assigns, self.imports = {}, {}, {}, {}
        self._index(self.tree.body)

    def _index(self, body):
        for s in body:
            if isinstance(s, ast.FunctionDef):
                self.functions[s.name] = Func(s, self)
            elif isinstance(s, ast.ClassDef):
                self.classes[s.name] = ClassV(s, self)
            elif isinstance(s, ast.Assign) and len(s.targets) == 1 and isinstance(s.targets[0], ast.Name):
                self.assigns[s.targets[0].id] = s.value
            elif isinstance(s, ast.Import):
                for a in s.names:
                    self.imports[a.asname or a.name] = ("ext", a.name)
            elif isinstance(s, ast.ImportFrom):
                for a in s.names:
                    if s.level == 1 and s.module and os.path.exists(os.path.join(os.path.dirname(self.path), s.module + ".py")):
                        self.imports[a.asname or a.name] = ("mod", os.path.join(os.path.dirname(self.relpath), s.module + ".py"), a.name)
                    else:
                        self.imports[a.asname or a.name] = ("ext", a.name)
            elif isinstance(s, (ast.If, ast.Try)):
                # conditional module-level definitions: index both arms (first definition wins)
                for part in ("body", "orelse", "finalbody"):
                    self._index(getattr(s, part, []) or [])

    def where(self, node):
        return "%s:%d" % (os.path.basename(self.relpath), getattr(node, "lineno", 0))


def is_z3(v):
    return isinstance(v, z3.ExprRef)


def is_num(v):
    return isinstance(v, (int, float, Fraction)) and not isinstance(v, bool)


def to_real(v):
    if is_z3(v):
        return z3.ToReal(v) if z3.is_int(v) else v
    if isinstance(v, bool):
        raise PyUnsupported("bool used as number")
    if isinstance(v, int):
        return z3.RealVal(v)
    if isinstance(v, float):
        if v != v or v in (float("inf"), float("-inf")):
            raise PyUnsupported("non-finite float constant")
        f = Fraction(v)
        return z3.RealVal(str(f.numerator) + "/" + str(f.denominator))
    if isinstance(v, Fraction):
        return z3.RealVal(str(v.numerator) + "/" + str(v.denominator))
    raise PyUnsupported("not a number: %r" % (v,))


class Interp:
    def __init__(self, mod, ctx=None, tag=None, symbolic_globals=None, externals=None, contracts=None):
        """ctx: engine.api.TaskCtx (obligations are appended to ctx.eng.obligations) or None (collected in self.obls).
        symbolic_globals: {name: value} overriding module-level assignments (symbolic tables / constants)."""
        self.mod, self.ctx = mod, ctx
        self.tag = tag or os.path.basename(mod.relpath)[:-3]
        self.sym_globals = dict(symbolic_globals or {})
        self.externals = dict(externals or {})
        self.contracts = dict(contracts or {})
        self.global_hyps = []            # facts about symbolic globals (positivity of table values, ...)
        self.literals = {}
        self.symstrs = []
        self.obls = []
        self.ids = itertools.count(1)
        self.gcache = {}
        self.depth = 0
        self.prefix = (ctx.eng.prefix + ctx.task.name + ".") if ctx is not None else ""

    # ---------------------------------------------------------------- strings
    def lit(self, s):
        c = self.literals.get(s)
        if c is None:
            c = self.literals[s] = z3.Const("str:" + s, STR)
        return c

    def symstr(self, name):
        c = z3.Const(name, STR)
        self.symstrs.append(c)
        return c

    def string_axioms(self):
        ax = []
        lits = list(self.literals.items())
        for s, c in lits:
            lo = s.lower()
            ax.append(LOWER(c) == self.lit(lo))
        lits = list(self.literals.values())
        if len(lits) > 1:
            ax.append(z3.Distinct(*lits))
        for u in self.symstrs:
            ax.append(LOWER(LOWER(u)) == LOWER(u))
        return ax

    def as_str(self, v):
        if isinstance(v, str):
            return self.lit(v)
        if is_z3(v) and v.sort() == STR:
            return v
        raise PyUnsupported("not a string: %r" % (v,))

    # ---------------------------------------------------------------- obligations / feasibility
    def hyps(self, st):
        return list(self.global_hyps) + list(st.pc) + self.string_axioms()

    def oblige(self, st, name, goal, kind="def"):
        ob = Obligation(self.prefix + name, self.hyps(st), goal, kind)
        if self.ctx is not None:
            ob.meta["ctx"] = self.ctx
            self.ctx.eng.obligations.append(ob)
        else:
            self.obls.append(ob)
        if z3.is_true(z3.simplify(goal)):
            ob.verdict, ob.backend = "proved", "simplify"
        return ob

    def feasible(self, st, c):
        s = z3.Solver()
        s.set("timeout", 2000)
        for h in self.hyps(st):
            s.add(h)
        s.add(c)
        return s.check() != z3.unsat

    # ---------------------------------------------------------------- objects
    def new_object(self, st, name, cls=None, attrs=None):
        r = Ref(next(self.ids), name, cls)
        st.heap[r.id] = dict(attrs or {})
        return r

    def get_attr_obj(self, st, ref, name):
        h = st.heap[ref.id]
        if name in h:
            return h[name]
        if ref.cls is not None and name in ref.cls.methods:
            return Bound(ref.cls.methods[name], ref)
        v = z3.Real("%s.%s" % (ref.name, name))       # lazily materialised numeric attribute
        h[name] = v
        return v

    # ---------------------------------------------------------------- globals
    def global_value(self, name, mod=None):
        mod = mod or self.mod
        if mod is self.mod and name in self.sym_globals:
            return self.sym_globals[name]
        if name in self.sym_globals and name not in mod.functions:
            return self.sym_globals[name]
        key = (mod.relpath, name)
        if key in self.gcache:
            return self.gcache[key]
        if name in mod.functions:
            v = mod.functions[name]
        elif name in mod.classes:
            v = mod.classes[name]
        elif name in mod.assigns:
            st = State()
            st.env = {"__module__": mod}
            v = self.eval(st, mod.assigns[name])
            if isinstance(v, DictV):
                v.name = name
        elif name in mod.imports:
            imp = mod.imports[name]
            if imp[0] == "mod":
                v = self.global_value(imp[2], module(imp[1], mod.repo))
            else:
                v = Ext(imp[1])
        else:
            raise PyUnsupported("unknown name %s in %s" % (name, mod.relpath))
        self.gcache[key] = v
        return v

    # ---------------------------------------------------------------- expressions
    def eval(self, st, n):
        m = getattr(self, "e_" + type(n).__name__, None)
        if m is None:
            raise PyUnsupported("expression %s at %s" % (type(n).__name__, self._where(st, n)))
        return m(st, n)

    def _where(self, st, n):
        mod = st.env.get("__module__", self.mod)
        return mod.where(n)

    def e_Constant(self, st, n):
        return n.value

    def e_Name(self, st, n):
        if n.id in st.env:
            return st.env[n.id]
        if n.id in ("True", "False", "None"):
            return {"True": True, "False": False, "None": None}[n.id]
        if n.id in ("len", "isinstance", "dict", "tuple", "list", "str", "float", "int", "Exception", "AttributeError",
                    "ValueError", "RuntimeError", "TypeError", "KeyError"):
            mod = st.env.get("__module__", self.mod)
            if n.id not in mod.functions and n.id not in mod.assigns and n.id not in mod.imports:
                return Ext("builtins." + n.id)
        return self.global_value(n.id, st.env.get("__module__", self.mod))

    def e_Tuple(self, st, n):
        return tuple(self.eval(st, e) for e in n.elts)

    def e_List(self, st, n):
        return [self.eval(st, e) for e in n.elts]

    def e_Dict(self, st, n):
        keys = [self.eval(st, k) for k in n.keys]
        if not all(isinstance(k, str) for k in keys):
            raise PyUnsupported("dict literal with non-string keys at %s" % self._where(st, n))
        if len(set(keys)) != len(keys):
            raise PyUnsupported("dict literal with duplicate keys at %s" % self._where(st, n))
        return DictV(keys, [self.eval(st, v) for v in n.values])

    def e_UnaryOp(self, st, n):
        v = self.eval(st, n.operand)
        if isinstance(n.op, ast.Not):
            return z3.Not(v) if is_z3(v) else (not v)
        if isinstance(n.op, ast.USub):
            return -v
        if isinstance(n.op, ast.UAdd):
            return v
        raise PyUnsupported("unary op")

    def e_BinOp(self, st, n):
        a, b = self.eval(st, n.left), self.eval(st, n.right)
        return self.binop(st, n.op, a, b, n)

    def binop(self, st, op, a, b, n):
        if is_num(a) and is_num(b):
            try:
                if isinstance(op, ast.Add):
                    return a + b
                if isinstance(op, ast.Sub):
                    return a - b
                if isinstance(op, ast.Mult):
                    return a * b
                if isinstance(op, ast.Div):
                    return a / b
                if isinstance(op, ast.Pow):
                    return a ** b
            except ZeroDivisionError:
                raise _Raise(Exc("ZeroDivisionError", self._where(st, n)))
            raise PyUnsupported("operator %s" % type(op).__name__)
        if not ((is_num(a) or (is_z3(a) and z3.is_arith(a))) and (is_num(b) or (is_z3(b) and z3.is_arith(b)))):
            raise PyUnsupported("arithmetic on %r, %r at %s" % (a, b, self._where(st, n)))
        if isinstance(op, ast.Pow):
            if isinstance(b, int) and 0 <= b <= 8:
                r = z3.RealVal(1)
                x = to_real(a)
                for _ in range(b):
                    r = r * x
                return r
            raise PyUnsupported("symbolic power with exponent %r at %s" % (b, self._where(st, n)))
        x, y = to_real(a), to_real(b)
        if isinstance(op, ast.Add):
            return x + y
        if isinstance(op, ast.Sub):
            return x - y
        if isinstance(op, ast.Mult):
            return x * y
        if isinstance(op, ast.Div):
            ob = self.oblige(st, "def.div@%s" % self._where(st, n), y != 0)
            if ob.verdict != "proved":
                st.pc.append(y != 0)
            return x / y
        raise PyUnsupported("operator %s" % type(op).__name__)

    def e_BoolOp(self, st, n):
        vals = []
        for e in n.values:
            v = self.eval(st, e)
            if isinstance(v, bool):
                if isinstance(n.op, ast.And) and not v:
                    return False if not vals else z3.BoolVal(False)
                if isinstance(n.op, ast.Or) and v:
                    return True if not vals else z3.BoolVal(True)
                continue
            if not (is_z3(v) and z3.is_bool(v)):
                raise PyUnsupported("and/or on non-boolean %r at %s" % (v, self._where(st, n)))
            vals.append(v)
        if not vals:
            return isinstance(n.op, ast.And)
        return z3.And(*vals) if isinstance(n.op, ast.And) else z3.Or(*vals)

    def e_IfExp(self, st, n):
        c = self.eval(st, n.test)
        if isinstance(c, bool):
            return self.eval(st, n.body if c else n.orelse)
        a, b = self.eval(st, n.body), self.eval(st, n.orelse)
        if is_num(a) or is_z3(a):
            return z3.If(c, to_real(a), to_real(b))
        raise PyUnsupported("conditional expression at %s" % self._where(st, n))

    def e_Compare(self, st, n):
        left = self.eval(st, n.left)
        out = []
        for op, rn in zip(n.ops, n.comparators):
            right = self.eval(st, rn)
            out.append(self.compare(st, op, left, right, n))
            left = right
        if all(isinstance(o, bool) for o in out):
            return all(out)
        return z3.And(*[z3.BoolVal(o) if isinstance(o, bool) else o for o in out])

    def _is_str(self, v):
        return isinstance(v, str) or (is_z3(v) and v.sort() == STR)

    def compare(self, st, op, a, b, n):
        if isinstance(op, (ast.Is, ast.IsNot)):
            if a is None or b is None:
                r = (a is None) and (b is None)
                return r if isinstance(op, ast.Is) else (not r)
            raise PyUnsupported("`is` on non-None operands at %s" % self._where(st, n))
        if isinstance(op, (ast.In, ast.NotIn)):
            if isinstance(b, DictV):
                keys = b.keys
            elif isinstance(b, (tuple, list)) and all(isinstance(k, str) for k in b):
                keys = list(b)
            else:
                raise PyUnsupported("`in` on %r at %s" % (b, self._where(st, n)))
            if isinstance(a, str):
                r = a in keys
                return r if isinstance(op, ast.In) else (not r)
            s = self.as_str(a)
            r = z3.Or(*[s == self.lit(k) for k in keys]) if keys else z3.BoolVal(False)
            return r if isinstance(op, ast.In) else z3.Not(r)
        if self._is_str(a) and self._is_str(b):
            if isinstance(a, str) and isinstance(b, str):
                r = (a == b)
                if isinstance(op, ast.Eq):
                    return r
                if isinstance(op, ast.NotEq):
                    return not r
                raise PyUnsupported("string ordering")
            r = self.as_str(a) == self.as_str(b)
            if isinstance(op, ast.Eq):
                return r
            if isinstance(op, ast.NotEq):
                return z3.Not(r)
            raise PyUnsupported("string ordering")
        if (a is None) != (b is None) and isinstance(op, (ast.Eq, ast.NotEq)):
            return isinstance(op, ast.NotEq)
        if is_num(a) and is_num(b) or (isinstance(a, bool) and isinstance(b, bool)):
            return {ast.Eq: a == b, ast.NotEq: a != b, ast.Lt: a < b, ast.LtE: a <= b, ast.Gt: a > b, ast.GtE: a >= b}[type(op)]
        if (is_z3(a) or is_num(a)) and (is_z3(b) or is_num(b)):
            if (is_z3(a) and z3.is_int(a) or isinstance(a, int)) and (is_z3(b) and z3.is_int(b) or isinstance(b, int)):
                x = a if is_z3(a) else z3.IntVal(a)
                y = b if is_z3(b) else z3.IntVal(b)
            else:
                x, y = to_real(a), to_real(b)
            return {ast.Eq: x == y, ast.NotEq: x != y, ast.Lt: x < y, ast.LtE: x <= y, ast.Gt: x > y, ast.GtE: x >= y}[type(op)]
        raise PyUnsupported("comparison of %r and %r at %s" % (a, b, self._where(st, n)))

    def e_Subscript(self, st, n):
        base = self.eval(st, n.value)
        if isinstance(base, SeqAny) and isinstance(n.slice, ast.Slice):
            # a for-each over a SeqAny stands for EVERY element: only the full slice seq[:] is the whole sequence
            full = n.slice.lower is None and n.slice.upper is None and n.slice.step is None
            self.oblige(st, "def.whole_sequence@%s" % self._where(st, n), z3.BoolVal(full))
            return base
        idx = self.eval(st, n.slice)
        if isinstance(base, DictV):
            return self.lookup(st, base, idx, n)
        if isinstance(base, (tuple, list)) and isinstance(idx, int):
            try:
                return base[idx]
            except IndexError:
                raise _Raise(Exc("IndexError", self._where(st, n)))
        if isinstance(base, dict):
            if idx in base:
                return base[idx]
            raise _Raise(Exc("KeyError", idx))
        raise PyUnsupported("subscript of %r at %s" % (base, self._where(st, n)))

    def lookup(self, st, d, key, n):
        if isinstance(key, str):
            if key in d.keys:
                return d.get(key)
            raise _Raise(Exc("KeyError", key))
        s = self.as_str(key)
        present = z3.Or(*[s == self.lit(k) for k in d.keys])
        ob = self.oblige(st, "def.key@%s" % self._where(st, n), present)
        if ob.verdict != "proved":
            st.pc.append(present)
        vals = d.values
        if all(is_num(x) or (is_z3(x) and z3.is_arith(x)) for x in vals):
            # the value next to the matching key; one uninterpreted selector per table keeps lookups of the same key equal
            r = selector(d.name or "dict")(s)
            for k, x in zip(d.keys, vals):
                fact = z3.Implies(s == self.lit(k), r == to_real(x))
                if not any(fact.eq(h) for h in st.pc):
                    st.pc.append(fact)
            return r
        raise PyUnsupported("symbolic lookup in a non-numeric dict at %s" % self._where(st, n))

    def e_Attribute(self, st, n):
        base = self.eval(st, n.value)
        return self.getattr(st, base, n.attr, n)

    def getattr(self, st, base, attr, n):
        if isinstance(base, Ref):
            return self.get_attr_obj(st, base, attr)
        if isinstance(base, Ext):
            return Ext(base.name + "." + attr)
        if isinstance(base, (str, DictV, dict, tuple, list)) or self._is_str(base):
            return Method(base, attr)
        raise PyUnsupported("attribute %s of %r at %s" % (attr, base, self._where(st, n)))

    def e_Call(self, st, n):
        f = self.eval(st, n.func)
        args = []
        for a in n.args:
            if isinstance(a, ast.Starred):
                v = self.eval(st, a.value)
                if not isinstance(v, (tuple, list)):
                    raise PyUnsupported("*args of non-sequence")
                args += list(v)
            else:
                args.append(self.eval(st, a))
        kw = {k.arg: self.eval(st, k.value) for k in n.keywords}
        return self.apply(st, f, args, kw, n)

    def apply(self, st, f, args, kw, n):
        if isinstance(f, Bound):
            return self.apply(st, f.func, [f.self_value] + list(args), kw, n)
        if isinstance(f, Func):
            if f.name in self.contracts:
                return self.contracts[f.name](self, st, args, n)
            return self.call_inline(st, f, args, kw, n)
        if isinstance(f, Method):
            return self.method(st, f.recv, f.name, args, n)
        if isinstance(f, Ext):
            nm = f.name
            if nm in self.externals:
                return self.externals[nm](self, st, args, n)
            if nm == "builtins.len":
                v = args[0]
                if isinstance(v, (tuple, list, dict, str)):
                    return len(v)
                if isinstance(v, DictV):
                    return len(v.keys)
                raise PyUnsupported("len of %r" % (v,))
            if nm == "builtins.isinstance":
                v, t = args
                if isinstance(t, Ext) and t.name == "builtins.dict":
                    if isinstance(v, (dict, DictV)):
                        return True
                    if isinstance(v, (tuple, list, str)) or is_num(v) or v is None:
                        return False
                raise PyUnsupported("isinstance(%r, %r) at %s" % (v, t, self._where(st, n)))
            if nm in ("builtins.Exception", "builtins.AttributeError", "builtins.ValueError", "builtins.RuntimeError",
                      "builtins.TypeError", "builtins.KeyError"):
                return Exc(nm.split(".")[1], args[0] if args else "")
            if nm == "math.sqrt" and len(args) == 1 and is_num(args[0]):
                return math.sqrt(args[0])
            raise PyUnsupported("call of external %s at %s" % (nm, self._where(st, n)))
        if isinstance(f, ClassV):
            raise PyUnsupported("object construction %s" % f.name)
        raise PyUnsupported("call of %r at %s" % (f, self._where(st, n)))

    def method(self, st, recv, name, args, n):
        if name == "lower" and not args:
            if isinstance(recv, str):
                return recv.lower()
            return LOWER(self.as_str(recv))
        if name == "encode" and self._is_str(recv):
            return recv                 # ASCII encoding of an ASCII string: same characters (keys checked ASCII by the pack)
        if name == "keys" and isinstance(recv, DictV):
            return list(recv.keys)
        if name == "values" and isinstance(recv, DictV):
            return list(recv.values)
        if name == "values" and isinstance(recv, dict):
            return list(recv.values())
        if name == "keys" and isinstance(recv, dict):
            return list(recv.keys())
        raise PyUnsupported("method %s of %r at %s" % (name, recv, self._where(st, n)))

    # ---------------------------------------------------------------- calls
    def call_inline(self, st, f, args, kw, n):
        """Inline call inside an expression: the callee must have exactly one feasible normal outcome
        (other outcomes must be raises, which propagate) -- forks inside nested calls are lifted by exec_call."""
        outs = self.exec_call(st, f, args, kw)
        rets = [o for o in outs if o.kind == "return"]
        raises = [o for o in outs if o.kind == "raise"]
        if len(outs) == 1:
            o = outs[0]
            self._adopt(st, o.st)
            if o.kind == "raise":
                raise _Raise(o.value)
            return o.value
        raise _Fork(outs)

    def _adopt(self, st, s2):
        st.heap, st.pc, st.writes, st.ext_stores, st.foreach = s2.heap, s2.pc, s2.writes, s2.ext_stores, s2.foreach

    def exec_call(self, st, f, args, kw=None):
        """run function f on a fork of st; returns [Outcome]; caller's env is untouched, heap effects are in Outcome.st"""
        node = f.node
        a = node.args
        params = [p.arg for p in a.args]
        s = st.fork()
        env = {"__module__": f.module}
        args = list(args)
        kw = dict(kw or {})
        defaults = dict(zip(params[len(params) - len(a.defaults):], a.defaults))
        for i, p in enumerate(params):
            if i < len(args):
                env[p] = args[i]
            elif p in kw:
                env[p] = kw.pop(p)
            elif p in defaults:
                env[p] = self.eval(s, defaults[p])
            else:
                raise PyUnsupported("missing argument %s of %s" % (p, f.name))
        if a.vararg is not None:
            env[a.vararg.arg] = tuple(args[len(params):])
        elif len(args) > len(params):
            raise PyUnsupported("too many arguments for %s" % f.name)
        if kw:
            raise PyUnsupported("unexpected keyword arguments %s" % sorted(kw))
        saved = s.env
        s.env = env
        self.depth += 1
        if self.depth > 12:
            raise PyUnsupported("call depth")
        try:
            res = self.exec_block(node.body, s)
        finally:
            self.depth -= 1
        outs = []
        for (s2, flow) in res:
            s2.env = dict(saved)
            if flow is None:
                outs.append(Outcome(s2, "return", None))
            else:
                outs.append(Outcome(s2, flow[0], flow[1]))
        if self.ctx is not None:
            self.ctx.eng.functions_seen.setdefault("%s:%s" % (f.module.relpath, (f.cls.name + "." if f.cls else "") + f.name),
                                                   (f.module.relpath, node.lineno))
        return outs

    def call(self, fname, args, pre=(), st=None, cls=None):
        """entry point for packs: outcomes of module function `fname` (or method cls.fname) under preconditions `pre`"""
        st = st or State()
        st.pc += list(pre)
        if cls is not None:
            c = self.mod.classes[cls]
            f = c.setters.get(fname[4:]) if fname.startswith("set:") else c.methods[fname]
        else:
            f = self.global_value(fname)
        return self.exec_call(st, f, args)

    def call1(self, fname, args, pre=(), st=None, cls=None):
        outs = self.call(fname, args, pre, st, cls)
        if len(outs) != 1 or outs[0].kind != "return":
            raise PyUnsupported("%s: expected exactly one normal path, got %s" % (fname, [(o.kind, o.value) for o in outs]))
        return outs[0]

    # ---------------------------------------------------------------- statements
    def exec_block(self, stmts, st):
        """-> list of (state, flow) with flow None | ('return', v) | ('raise', Exc)"""
        live = [st]
        done = []
        for s in stmts:
            nxt = []
            for cur in live:
                for (s2, flow) in self.exec_stmt(s, cur):
                    if flow is None:
                        nxt.append(s2)
                    else:
                        done.append((s2, flow))
            live = nxt
            if not live:
                break
        return done + [(s, None) for s in live]

    def exec_stmt(self, s, st):
        m = getattr(self, "s_" + type(s).__name__, None)
        if m is None:
            raise PyUnsupported("statement %s at %s" % (type(s).__name__, self._where(st, s)))
        try:
            return m(s, st)
        except _Raise as r:
            return [(st, ("raise", r.exc))]
        except _Fork as fk:
            # a nested call forked: re-run this statement once per callee outcome with the call result pinned
            raise PyUnsupported("forking call inside an expression at %s (call it as a statement-level assignment "
                                "through a contract)" % self._where(st, s))

    def s_Pass(self, s, st):
        return [(st, None)]

    def s_Expr(self, s, st):
        if isinstance(s.value, ast.Constant):
            return [(st, None)]
        if isinstance(s.value, ast.Call):
            return self._call_stmt(s.value, st, lambda s2, v: None)
        self.eval(st, s.value)
        return [(st, None)]

    def _call_stmt(self, call, st, bind):
        """statement whose value is a call: lift the callee's outcomes to statement level (forks allowed)"""
        f = self.eval(st, call.func)
        fn = f.func if isinstance(f, Bound) else f
        if not isinstance(fn, Func) or fn.name in self.contracts:
            v = self.eval(st, call)
            bind(st, v)
            return [(st, None)]
        args = []
        for a in call.args:
            if isinstance(a, ast.Starred):
                args += list(self.eval(st, a.value))
            else:
                args.append(self.eval(st, a))
        if isinstance(f, Bound):
            args = [f.self_value] + args
        kw = {k.arg: self.eval(st, k.value) for k in call.keywords}
        res = []
        for o in self.exec_call(st, fn, args, kw):
            s2 = o.st
            s2.env = dict(st.env)
            if o.kind == "raise":
                res.append((s2, ("raise", o.value)))
            else:
                bind(s2, o.value)
                res.append((s2, None))
        return res

    def _bind(self, st, target, v):
        if isinstance(target, ast.Name):
            st.env[target.id] = v
        elif isinstance(target, (ast.Tuple, ast.List)):
            if not isinstance(v, (tuple, list)):
                raise PyUnsupported("unpacking of %r at %s" % (v, self._where(st, target)))
            if len(v) != len(target.elts):
                raise _Raise(Exc("ValueError", "unpack %d values into %d names" % (len(v), len(target.elts))))
            for t, x in zip(target.elts, v):
                self._bind(st, t, x)
        elif isinstance(target, ast.Attribute):
            base = self.eval(st, target.value)
            if isinstance(base, Ref):
                if base.cls is not None and target.attr in base.cls.setters:
                    raise PyUnsupported("property setter %s inside code" % target.attr)
                st.heap[base.id][target.attr] = v
                st.writes.append((base.name, target.attr))
            elif isinstance(base, Ext):
                st.ext_stores.append("%s.%s" % (base.name, target.attr))
            else:
                raise PyUnsupported("attribute store on %r" % (base,))
        else:
            raise PyUnsupported("assignment target %s" % type(target).__name__)

    def s_Assign(self, s, st):
        def bind(s2, v):
            for t in s.targets:
                self._bind(s2, t, v)
        if isinstance(s.value, ast.Call):
            return self._call_stmt(s.value, st, bind)
        v = self.eval(st, s.value)
        bind(st, v)
        return [(st, None)]

    def s_AugAssign(self, s, st):
        cur = self.eval(st, s.target)
        v = self.binop(st, s.op, cur, self.eval(st, s.value), s)
        self._bind(st, s.target, v)
        return [(st, None)]

    def s_Return(self, s, st):
        if s.value is None:
            return [(st, ("return", None))]
        if isinstance(s.value, ast.Call):
            out = []
            for (s2, flow) in self._call_stmt(s.value, st, lambda s3, v: s3.env.__setitem__("__ret__", v)):
                out.append((s2, flow if flow is not None else ("return", s2.env.pop("__ret__"))))
            return out
        return [(st, ("return", self.eval(st, s.value)))]

    def s_Raise(self, s, st):
        v = self.eval(st, s.exc) if s.exc is not None else Exc("reraise")
        if not isinstance(v, Exc):
            v = Exc(str(v))
        return [(st, ("raise", v))]

    def s_If(self, s, st):
        c = self.eval(st, s.test)
        if not isinstance(c, bool) and not is_z3(c):
            if c is None or is_num(c) or isinstance(c, (str, tuple, list)):
                c = bool(c)
            else:
                raise PyUnsupported("truth value of %r at %s" % (c, self._where(st, s)))
        if isinstance(c, bool):
            return self.exec_block(s.body if c else s.orelse, st)
        c = z3.simplify(c)
        if z3.is_true(c):
            return self.exec_block(s.body, st)
        if z3.is_false(c):
            return self.exec_block(s.orelse, st)
        out = []
        ft, ff = self.feasible(st, c), self.feasible(st, z3.Not(c))
        if ft:
            s1 = st.fork() if ff else st
            s1.pc.append(c)
            out += self.exec_block(s.body, s1)
        if ff:
            st.pc.append(z3.Not(c))
            out += self.exec_block(s.orelse, st)
        return out

    def s_For(self, s, st):
        it = self.eval(st, s.iter)
        if s.orelse:
            raise PyUnsupported("for/else")
        if isinstance(it, SeqAny):
            elem = it.make(self, st)
            st.foreach.append((it.name, self._where(st, s)))
            self._bind(st, s.target, elem)
            res = self.exec_block(s.body, st)
            for (_s2, flow) in res:
                if flow is not None and flow[0] != "raise":
                    raise PyUnsupported("return inside abstract for-each")
            return res
        if isinstance(it, DictV):
            it = list(it.keys)
        if not isinstance(it, (tuple, list)):
            raise PyUnsupported("iteration over %r at %s" % (it, self._where(st, s)))
        live, done = [st], []
        for x in it:
            nxt = []
            for cur in live:
                self._bind(cur, s.target, x)
                for (s2, flow) in self.exec_block(s.body, cur):
                    if flow is None:
                        nxt.append(s2)
                    else:
                        done.append((s2, flow))
            live = nxt
            if len(live) + len(done) > 4096:
                raise PyUnsupported("path explosion in for loop at %s" % self._where(st, s))
        return done + [(x, None) for x in live]


class _Fork(Exception):
    def __init__(self, outs):
        self.outs = outs


def concrete_tables(mod, names):
    """Module-level tables evaluated with Python's own float arithmetic from the real initialiser expressions."""
    it = Interp(mod)
    return {n: it.global_value(n) for n in names}
