"""cexec -- expression and statement semantics on top of csym.Engine."""
import itertools
from fractions import Fraction
import z3
from .mem import Ptr, NULL, Opaque, FuncRef, Cell, StructObj, ArrObj
from .csym import (Engine, State, Flow, NORMAL, Unsupported, NeedsInvariant, LoopSpec, Contract, is_z3, simp,
                   const_int, as_bool, as_int, as_real, ctrunc, cdiv, cmod, sort_of, MATH_UNARY)

PRINTF_LIKE = {"printf", "fprintf", "sprintf", "snprintf", "puts", "fputs", "fflush", "perror", "putchar", "vprintf",
               "vfprintf", "vsnprintf", "vsprintf", "fputc", "usleep", "sleep", "gettimeofday", "assert",
               "__assert_fail"}


from .heap import HeapMixin
from .stream import StreamMixin, View, ByteOff


class Exec(HeapMixin, StreamMixin, Engine):
    # ================================================================== expressions
    def lvalue(self, st, n):
        """Evaluate an lvalue expression to a Ptr."""
        k = n["kind"]
        if k == "DeclRefExpr":
            ref = n["referencedDecl"]
            did = ref["id"]
            for fr in (st.frames[-1], ):
                if did in fr:
                    return Ptr(fr[did], ())
            if ref["kind"] in ("VarDecl",):
                return Ptr(self.global_object(st, ref["name"], ref).id, ())
            raise Unsupported("lvalue DeclRef %s %s" % (ref["kind"], ref.get("name")))
        if k == "MemberExpr":
            base = n["inner"][0]
            if n.get("isArrow"):
                p = self.rvalue(st, base)
                if not isinstance(p, Ptr):
                    raise Unsupported("-> on %r (%s)" % (p, n.get("name")))
                if p.obj is None:
                    self.check_deref(st, p, n)
                if p.null is not False and p.null is not True:
                    self.check_deref(st, p, n)
                    p = Ptr(p.obj, p.path, False)
                return Ptr(p.obj, p.path + (n["name"],), False)
            if base.get("valueCategory") == "prvalue" or base.get("kind") == "CallExpr":
                sv = self.rvalue(st, base)
                c = st.mem.add(Cell(self.node_type(base), sv, "tmp"))
                return Ptr(c.id, (n["name"],), False)
            p = self.lvalue(st, base)
            return Ptr(p.obj, p.path + (n["name"],), False)
        if k == "ArraySubscriptExpr":
            base = self.rvalue(st, n["inner"][0])
            idx = self.rvalue(st, n["inner"][1])
            if not isinstance(base, Ptr) and isinstance(idx, Ptr):
                base, idx = idx, base
            return self.ptr_add(st, base, idx, n)
        if k == "UnaryOperator" and n["opcode"] == "*":
            p = self.rvalue(st, n["inner"][0])
            if isinstance(p, Ptr):
                return p
            raise Unsupported("deref of %r" % (p,))
        if k == "ParenExpr":
            return self.lvalue(st, n["inner"][0])
        if k in ("ImplicitCastExpr", "CStyleCastExpr") and n.get("castKind") in ("NoOp", "LValueBitCast"):
            return self.lvalue(st, n["inner"][0])
        if k == "CompoundLiteralExpr":
            v = self.rvalue(st, n["inner"][0])
            c = st.mem.add(Cell(self.node_type(n), v, "compound"))
            return Ptr(c.id, ())
        if k == "StringLiteral":
            c = st.mem.add(Cell(self.node_type(n), Opaque("str", n.get("value")), "str"))
            return Ptr(c.id, ())
        raise Unsupported("lvalue kind " + k)

    def node_type(self, n):
        return self.tu0.node_type(n)

    def ptr_add(self, st, base, idx, node=None):
        if not isinstance(base, Ptr):
            raise Unsupported("pointer arithmetic on %r" % (base,))
        if base.obj is None:
            raise Unsupported("arithmetic on NULL")
        idx = as_int(idx)
        if base.path and isinstance(base.path[-1], ByteOff):
            ci = const_int(idx)
            if ci is None:
                raise Unsupported("symbolic byte offset into a struct")
            return Ptr(base.obj, base.path[:-1] + (ByteOff(base.path[-1].off + ci),), base.null)
        if base.path and isinstance(base.path[-1], View):
            vw = base.path[-1]
            return Ptr(base.obj, base.path[:-1] + (View(vw.ctype, simp(vw.pos + idx * self.sizeof(vw.ctype))),), base.null)
        if base.path and not isinstance(base.path[-1], str):
            last = base.path[-1]
            return Ptr(base.obj, base.path[:-1] + (simp(as_int(last) + idx),), base.null)
        # pointer to a non-array location
        o = self.peek(st, base)
        if isinstance(o, ArrObj):
            return Ptr(base.obj, base.path + (simp(idx),), base.null)
        if const_int(idx) == 0:
            return base
        raise Unsupported("pointer arithmetic on non-array pointer %r + %s" % (base, idx))

    def peek(self, st, ptr):
        """The object/value a pointer designates, without copying (internal use)."""
        v = st.mem.get(ptr.obj)
        for item in ptr.path:
            while isinstance(v, Cell):
                v = v.value
            if isinstance(v, StructObj) and isinstance(item, str):
                v = self._lazy_field(v, item, st)
            elif isinstance(v, ArrObj) and v.mode == "list" and const_int(item) is not None:
                v = v.items[const_int(item)]
            else:
                return None
        while isinstance(v, Cell):
            v = v.value
        return v

    def rvalue(self, st, n):
        k = n["kind"]
        m = getattr(self, "rv_" + k, None)
        if m is None:
            raise Unsupported("expression kind " + k)
        return m(st, n)

    def rv_IntegerLiteral(self, st, n):
        return z3.IntVal(int(n["value"]))

    def rv_CharacterLiteral(self, st, n):
        return z3.IntVal(int(n["value"]))

    def rv_FloatingLiteral(self, st, n):
        return z3.RealVal(Fraction(float(n["value"])))

    def rv_StringLiteral(self, st, n):
        return Opaque("str", n.get("value"))

    def rv_ParenExpr(self, st, n):
        return self.rvalue(st, n["inner"][0])

    def rv_ConstantExpr(self, st, n):
        if "value" in n:
            try:
                return z3.IntVal(int(n["value"]))
            except ValueError:
                pass
        return self.rvalue(st, n["inner"][0])

    def rv_DeclRefExpr(self, st, n):
        ref = n["referencedDecl"]
        if ref["kind"] == "EnumConstantDecl":
            return z3.IntVal(self.enum(ref["name"]))
        if ref["kind"] == "FunctionDecl":
            return FuncRef(ref["name"])
        p = self.lvalue(st, n)
        return self.read(st, p, n)

    def rv_MemberExpr(self, st, n):
        if not n.get("isArrow"):
            base = n["inner"][0]
            # member of an rvalue struct (e.g. f().x)
            if base.get("valueCategory") == "prvalue":
                s = self.rvalue(st, base)
                if isinstance(s, StructObj):
                    return self._lazy_field(s, n["name"], st)
        return self.read(st, self.lvalue(st, n), n)

    def rv_ArraySubscriptExpr(self, st, n):
        return self.read(st, self.lvalue(st, n), n)

    def rv_ImplicitValueInitExpr(self, st, n):
        return self.zero_value(self.node_type(n))

    def rv_CompoundLiteralExpr(self, st, n):
        return self.rvalue(st, n["inner"][0])

    def rv_InitListExpr(self, st, n):
        t = self.node_type(n)
        inner = n.get("inner", [])
        if t.kind in ("struct", "union"):
            s = StructObj(t, {})
            fields = self.records(t.name)
            if t.kind == "union":
                fld = n.get("field", {}).get("name")
                if inner:
                    s.fields[fld or fields[0][0]] = self.rvalue(st, inner[0])
                return s
            for i, (fname, q, _id) in enumerate(fields):
                if i < len(inner):
                    s.fields[fname] = self._init_value(st, inner[i], self.ctype(q))
                else:
                    s.fields[fname] = self.zero_value(self.ctype(q))
            return s
        if t.kind == "array":
            a = ArrObj(t.to, t.n, "list")
            if "array_filler" in n:
                # clang: array_filler = [filler expr, explicit initialisers...]
                inner = [c for c in n["array_filler"][1:]]
            real = [self._init_value(st, c, t.to) for c in inner]
            while len(real) < (t.n or 0):
                real.append(self.zero_value(t.to))
            a.items = real[: t.n] if t.n else real
            a.length = len(a.items)
            return a
        if inner:
            return self.rvalue(st, inner[0])
        return self.zero_value(t)

    def _init_value(self, st, n, ctype):
        v = self.rvalue(st, n)
        return self._coerce_store(None, v, ctype, st)

    def rv_UnaryExprOrTypeTraitExpr(self, st, n):
        if n.get("name") == "sizeof":
            if "argType" in n:
                t = self.ctype(n["argType"].get("desugaredQualType", n["argType"]["qualType"]))
            else:
                t = self.node_type(n["inner"][0])
            return z3.IntVal(self.sizeof(t))
        raise Unsupported("type trait " + str(n.get("name")))

    def sizeof(self, t):
        for tu in self.tus:
            try:
                return tu.sizeof(t)
            except KeyError:
                continue
        raise Unsupported("sizeof %r" % (t,))

    def rv_ImplicitCastExpr(self, st, n):
        ck = n.get("castKind")
        sub = n["inner"][0]
        if ck == "LValueToRValue":
            return self.read(st, self.lvalue(st, sub), n)
        if ck == "ArrayToPointerDecay":
            p = self.lvalue(st, sub)
            o = self.peek(st, p)
            if isinstance(o, Opaque):
                return o
            return Ptr(p.obj, p.path + (z3.IntVal(0),), False)
        if ck in ("FunctionToPointerDecay", "BuiltinFnToFnPtr"):
            return self.rvalue(st, sub)
        v = self.rvalue(st, sub)
        return self.cast(st, v, ck, self.node_type(n), self.node_type(sub), n)

    rv_CStyleCastExpr = rv_ImplicitCastExpr

    def cast(self, st, v, ck, to, frm, n):
        if ck == "BitCast" and isinstance(v, Ptr) and v.obj is not None and to.kind == "ptr":
            if v.path and isinstance(v.path[-1], ByteOff):
                if (to.to.kind == "int" and to.to.bits == 8) or to.to.kind == "void":
                    return v
                rp, _ft = self.resolve_byteoff(st, v, to.to)
                return rp
            if to.to.kind == "int" and to.to.bits == 8:
                bv = self.byte_view(st, v)
                if bv is not None:
                    return bv
            vv = self.view_cast(st, v, to.to)
            if vv is not None:
                return vv
            o = st.mem.objs.get(v.obj)
            if isinstance(o, ArrObj) and o.elem is None:
                return self.retype_block(st, v, to.to)
            return v
        if ck in ("NoOp", "FloatingCast", "BitCast", "LValueBitCast", "ToVoid", "ArrayToPointerDecay"):
            return v
        if ck == "IntegralCast":
            v = as_int(v) if not isinstance(v, (Ptr, Opaque)) else v
            if to.kind == "int" and to.bits == 1:
                return as_int(as_bool(v))
            return v
        if ck == "IntegralToFloating":
            if self.umode and const_int(v) is None:
                return self.uf("u_i2f", z3.IntSort(), z3.RealSort())(as_int(v))
            return simp(as_real(as_int(v)))
        if ck == "FloatingToIntegral":
            if self.umode:
                return self.uf("f2i", z3.RealSort(), z3.IntSort())(as_real(v))
            return simp(ctrunc(v))
        if ck == "NullToPointer":
            return NULL
        if ck in ("IntegralToBoolean", "FloatingToBoolean", "PointerToBoolean"):
            return as_bool(v)
        if ck == "IntegralToPointer":
            if const_int(v) == 0:
                return NULL
            return self.int_to_ptr(as_int(v), st)
        if ck == "PointerToIntegral":
            return self.ptr_to_int(v)
        raise Unsupported("cast kind %s" % ck)

    def rv_UnaryOperator(self, st, n):
        op = n["opcode"]
        sub = n["inner"][0]
        if op == "&":
            k = sub["kind"]
            if k == "DeclRefExpr" and sub["referencedDecl"]["kind"] == "FunctionDecl":
                return FuncRef(sub["referencedDecl"]["name"])
            return self.lvalue(st, sub)
        if op == "*":
            p = self.rvalue(st, sub)
            if isinstance(p, FuncRef):
                return p
            return self.read(st, p, n)
        if op in ("++", "--"):
            p = self.lvalue(st, sub)
            old = self.read(st, p, n)
            if isinstance(old, Ptr):
                new = self.ptr_add(st, old, z3.IntVal(1 if op == "++" else -1), n)
            else:
                new = simp(old + (1 if op == "++" else -1))
            self.write(st, p, new, n)
            return old if n.get("isPostfix") else new
        v = self.rvalue(st, sub)
        if op == "-":
            if self.umode and z3.is_real(v):
                return self.fneg(v)
            return simp(-(as_int(v) if z3.is_bool(v) else v))
        if op == "+":
            return v
        if op == "!":
            return z3.Not(as_bool(v))
        if op == "~":
            return -as_int(v) - 1
        raise Unsupported("unary " + op)

    def fneg(self, v):
        return -v

    def arith(self, st, op, a, b, n, rtype=None):
        """Binary arithmetic/comparison on evaluated operands."""
        if isinstance(a, Ptr) or isinstance(b, Ptr) or isinstance(a, (Opaque, FuncRef)) or isinstance(b, (Opaque, FuncRef)):
            return self.ptr_op(st, op, a, b, n)
        if op in ("&&", "||"):
            a, b = as_bool(a), as_bool(b)
            return z3.And(a, b) if op == "&&" else z3.Or(a, b)
        if z3.is_bool(a) and z3.is_bool(b) and op in ("==", "!="):
            return (a == b) if op == "==" else (a != b)
        isf = (is_z3(a) and z3.is_real(a)) or (is_z3(b) and z3.is_real(b))
        if isf:
            a, b = as_real(a), as_real(b)
            if self.umode and op in ("+", "-", "*", "/"):
                return self.fop(op, a, b, n)
        else:
            a, b = as_int(a), as_int(b)
        if op == "+":
            return simp(a + b)
        if op == "-":
            return simp(a - b)
        if op == "*":
            return simp(a * b)
        if op == "/":
            if isf:
                if self.check_defined:
                    self.check_then_assume(st, "def.div@%s" % self._where(n), b != 0, "def", n)
                h = st.ghost.get("fdiv")     # opt-in (pack): value convention for x/0 when definedness is not the subject
                if h is not None:
                    return simp(h(self, st, a, b, n))
                return simp(a / b)
            if self.check_defined:
                self.check_then_assume(st, "def.idiv@%s" % self._where(n), b != 0, "def", n)
            return simp(cdiv(a, b))
        if op == "%":
            if self.check_defined:
                self.check_then_assume(st, "def.imod@%s" % self._where(n), b != 0, "def", n)
            return simp(cmod(a, b))
        if op == "<":
            return a < b
        if op == ">":
            return a > b
        if op == "<=":
            return a <= b
        if op == ">=":
            return a >= b
        if op == "==":
            return a == b
        if op == "!=":
            return a != b
        if op in ("<<", ">>", "&", "|", "^"):
            ca, cb = const_int(a), const_int(b)
            if ca is not None and cb is not None:
                return z3.IntVal({"<<": ca << cb, ">>": ca >> cb, "&": ca & cb, "|": ca | cb, "^": ca ^ cb}[op])
            if op == "<<" and cb is not None:
                return simp(a * (1 << cb))
            if op == ">>" and cb is not None:
                return simp(cdiv(a, z3.IntVal(1 << cb)))
            if op == "&" and cb is not None and cb >= 0 and (cb & (cb + 1)) == 0:
                return simp(a % (cb + 1))          # mask with 2^k-1 on a non-negative value
            bitf = self.uf("bit" + {"&": "and", "|": "or", "^": "xor", "<<": "shl", ">>": "shr"}[op],
                           z3.IntSort(), z3.IntSort(), z3.IntSort())
            if op == "|":
                # flag accumulation  x |= (p != q):  x | ite(c,1,0) = ite(c, x|1, x)   (x|0 = x exactly)
                for (u, w) in ((a, b), (b, a)):
                    sw = z3.simplify(w)
                    if z3.is_app_of(sw, z3.Z3_OP_ITE) and const_int(sw.arg(1)) == 1 and const_int(sw.arg(2)) == 0:
                        return z3.If(sw.arg(0), bitf(u, z3.IntVal(1)), u)
                    if z3.is_app_of(sw, z3.Z3_OP_ITE) and const_int(sw.arg(1)) == 0 and const_int(sw.arg(2)) == 1:
                        return z3.If(sw.arg(0), u, bitf(u, z3.IntVal(1)))
            return bitf(a, b)
        raise Unsupported("binary " + op)

    def fop(self, op, a, b, n):
        """U-mode: a floating-point operation is an uninterpreted function of its operands (bit-equality
        reasoning); IEEE facts (oddness, commutativity) are supplied by the pack as axioms."""
        R = z3.RealSort()
        nm = {"+": "fadd", "-": "fsub", "*": "fmul", "/": "fdiv"}[op]
        return self.uf("u_" + nm, R, R, R)(a, b)

    def ptr_op(self, st, op, a, b, n):
        if op in ("==", "!="):
            eq = self.ptr_eq(a, b)
            return eq if op == "==" else z3.Not(eq)
        if op in ("&&", "||"):
            a, b = as_bool(a), as_bool(b)
            return z3.And(a, b) if op == "&&" else z3.Or(a, b)
        if op == "+":
            if isinstance(a, Opaque):
                return a
            if isinstance(b, Opaque):
                return b
            if isinstance(a, Ptr):
                return self.ptr_add(st, a, b, n)
            return self.ptr_add(st, b, a, n)
        if op == "-":
            if isinstance(a, Ptr) and isinstance(b, Ptr):
                if a.obj == b.obj and len(a.path) == len(b.path) and a.path and b.path:
                    return simp(as_int(a.path[-1]) - as_int(b.path[-1]))
                raise Unsupported("pointer difference of unrelated pointers")
            return self.ptr_add(st, a, -as_int(b), n)
        if op in ("<", ">", "<=", ">="):
            if isinstance(a, Ptr) and isinstance(b, Ptr) and a.obj == b.obj and a.path and b.path:
                return self.arith(st, op, as_int(a.path[-1]), as_int(b.path[-1]), n)
        raise Unsupported("pointer op %s on %r, %r" % (op, a, b))

    def ptr_eq(self, a, b):
        def nullness(p):
            if isinstance(p, Ptr):
                if p.obj is None or p.null is True:
                    return z3.BoolVal(True)
                if p.null is False:
                    return z3.BoolVal(False)
                return p.null
            if isinstance(p, Opaque):
                return z3.Not(p.tag) if is_z3(p.tag) else z3.BoolVal(False)
            if isinstance(p, FuncRef):
                return z3.BoolVal(False)
            if is_z3(p):
                return as_int(p) == 0
            if p == 0:
                return z3.BoolVal(True)
            raise Unsupported("ptr_eq operand %r" % (p,))
        an, bn = nullness(a), nullness(b)
        if z3.is_true(bn):
            return an
        if z3.is_true(an):
            return bn
        if isinstance(a, Ptr) and isinstance(b, Ptr):
            if a.obj != b.obj:
                return z3.And(an, bn)
            if len(a.path) != len(b.path):
                return z3.BoolVal(False)
            conds = []
            for x, y in zip(a.path, b.path):
                if isinstance(x, str) or isinstance(y, str):
                    if x != y:
                        return z3.BoolVal(False)
                else:
                    conds.append(as_int(x) == as_int(y))
            return z3.And(*conds) if conds else z3.BoolVal(True)
        if isinstance(a, FuncRef) and isinstance(b, FuncRef):
            return z3.BoolVal(a.name == b.name)
        if isinstance(a, (Opaque, FuncRef)) or isinstance(b, (Opaque, FuncRef)):
            if a is b:
                return z3.BoolVal(True)
            return self.ptr_to_int(a) == self.ptr_to_int(b)
        raise Unsupported("ptr_eq %r %r" % (a, b))

    def rv_BinaryOperator(self, st, n):
        op = n["opcode"]
        L, R = n["inner"]
        if op == "=":
            v = self.rvalue(st, R)
            p = self.lvalue(st, L)
            self.write(st, p, v, n)
            return v
        if op == ",":
            self.rvalue(st, L)
            return self.rvalue(st, R)
        if op in ("&&", "||"):
            a = as_bool(self.rvalue(st, L))
            sa = simp(a)
            if op == "&&" and z3.is_false(sa):
                return z3.BoolVal(False)
            if op == "||" and z3.is_true(sa):
                return z3.BoolVal(True)
            st.guards.append(a if op == "&&" else z3.Not(a))
            try:
                b = as_bool(self.rvalue(st, R))
            finally:
                st.guards.pop()
            return z3.And(a, b) if op == "&&" else z3.Or(a, b)
        a = self.rvalue(st, L)
        b = self.rvalue(st, R)
        r = self.arith(st, op, a, b, n)
        if op == "-" and getattr(self, "check_unsigned_wrap", False) and is_z3(r) and z3.is_int(r) and self.check_defined:
            # opt-in (pack sets engine.check_unsigned_wrap): Z-mode is only faithful if an unsigned difference such as
            # `r->N-1` does not wrap around; make that a definedness obligation instead of a silent assumption
            t = self.node_type(n)
            if t.kind == "int" and not t.signed and const_int(r) is None:
                self.check_then_assume(st, "arith.unsigned_nowrap@%s" % self._where(n), r >= 0, "def", n)
        return r

    def rv_CompoundAssignOperator(self, st, n):
        op = n["opcode"][:-1]
        L, R = n["inner"]
        b = self.rvalue(st, R)
        p = self.lvalue(st, L)
        a = self.read(st, p, n)
        lt = self.node_type(L)
        if lt.kind in ("int", "enum") and is_z3(b) and z3.is_real(b):
            v = ctrunc(self.arith(st, op, as_real(a), b, n))
        else:
            v = self.arith(st, op, a, b, n)
        self.write(st, p, v, n)
        return v

    def rv_ConditionalOperator(self, st, n):
        c = as_bool(self.rvalue(st, n["inner"][0]))
        sc = simp(c)
        if z3.is_true(sc):
            return self.rvalue(st, n["inner"][1])
        if z3.is_false(sc):
            return self.rvalue(st, n["inner"][2])
        st.guards.append(c)
        try:
            a = self.rvalue(st, n["inner"][1])
        finally:
            st.guards.pop()
        st.guards.append(z3.Not(c))
        try:
            b = self.rvalue(st, n["inner"][2])
        finally:
            st.guards.pop()
        return self.ite(c, a, b)

    def ite(self, c, a, b):
        if is_z3(a) and is_z3(b):
            if z3.is_real(a) or z3.is_real(b):
                return z3.If(c, as_real(a), as_real(b))
            if z3.is_bool(a) and z3.is_bool(b):
                return z3.If(c, a, b)
            return z3.If(c, as_int(a), as_int(b))
        if isinstance(a, Ptr) and isinstance(b, Ptr) and a.obj == b.obj and a.path == b.path:
            return a
        if isinstance(a, StructObj) and isinstance(b, StructObj):
            s = StructObj(a.ctype, {})
            for f in set(a.fields) | set(b.fields):
                if f in a.fields and f in b.fields:
                    s.fields[f] = self.ite(c, a.fields[f], b.fields[f])
            return s
        if isinstance(a, ArrObj) and isinstance(b, ArrObj) and a.mode == "list" and b.mode == "list":
            r = a.clone()
            r.items = [self.ite(c, x, y) for x, y in zip(a.items, b.items)]
            return r
        if a is b:
            return a
        if isinstance(a, Opaque) and isinstance(b, Opaque) and a.what == b.what:
            return a
        raise Unsupported("ite of %r / %r" % (a, b))

    def rv_OffsetOfExpr(self, st, n):
        # clang's JSON dump does not carry the member designator; the value is not needed symbolically
        return self.fresh("offsetof", z3.IntSort())

    def rv_VAArgExpr(self, st, n):
        h = st.ghost.get("va_args")
        if h is None:
            raise Unsupported("va_arg without a vararg model")
        return h(self, st, self.node_type(n))

    def rv_StmtExpr(self, st, n):
        raise Unsupported("statement expression")

    # ================================================================== calls
    def rv_CallExpr(self, st, n):
        callee = n["inner"][0]
        argn = n["inner"][1:]
        f = self.rvalue(st, callee)
        if isinstance(f, FuncRef):
            name = f.name
        else:
            name = None
        if name is None:
            args = [self.rvalue(st, a) for a in argn]
            return self.call_unknown(st, f, args, n, callee)
        if name in ("__builtin_va_start", "__builtin_va_end", "va_start", "va_end"):
            return None
        args = [self.rvalue(st, a) for a in argn]
        return self.call(st, name, args, n)

    def call_unknown(self, st, f, args, n, callee):
        h = st.ghost.get("callback")
        if h is not None:
            return h(self, st, f, args, n, callee)
        raise Unsupported("call through function pointer %r" % (f,))

    def call(self, st, name, args, n=None):
        if name in self.trace_prims:
            return self.trace_prims[name](self, st, args, n)
        c = self.contracts.get(name)
        if c is not None:
            return c.apply(self, st, args, n)
        bi = getattr(self, "bi_" + name, None)
        if bi is not None:
            return bi(st, args, n)
        if name in MATH_UNARY:
            return self.math1(st, name, args[0], n)
        if name in PRINTF_LIKE or name in self.havoc_calls:
            rt = self.node_type(n) if n is not None else None
            if rt is not None and rt.kind in ("int", "enum"):
                return self.fresh("ret_" + name, z3.IntSort())
            return None
        tu, fn = self.find_function(name)
        if fn is None or name in self.no_inline:
            raise Unsupported("call to %s (no body, no contract)" % name)
        if len(self.callstack) > self.inline_depth:
            raise Unsupported("inline depth exceeded at " + name)
        return self.exec_function(st, tu, fn, args)

    # ================================================================== math
    def math1(self, st, name, x, n=None):
        x = as_real(x)
        if name in ("floor", "ceil", "round"):
            fl = z3.ToReal(z3.ToInt(x))
            if name == "floor":
                return fl
            if name == "ceil":
                return -z3.ToReal(z3.ToInt(-x))
            return z3.If(x >= 0, z3.ToReal(z3.ToInt(x + 0.5)), -z3.ToReal(z3.ToInt(-x + 0.5)))
        x = simp(x)
        if name == "sqrt" and z3.is_rational_value(x):
            import math
            nu, de = x.numerator_as_long(), x.denominator_as_long()
            if nu >= 0 and math.isqrt(nu) ** 2 == nu and math.isqrt(de) ** 2 == de:
                return z3.RealVal(nu and __import__("fractions").Fraction(math.isqrt(nu), math.isqrt(de)))
        key = (name, x.get_id())
        hit = self.math_cache.get(key)
        if hit is not None:
            y, axioms, xx = hit
        else:
            f = self.uf(name, z3.RealSort(), z3.RealSort())
            y = f(x)
            axioms = self.math_axioms(name, x, y)
            self.math_cache[key] = (y, axioms, x)
        dom = self.math_domain(name, x)
        if dom is not None and self.check_defined:
            self.check_then_assume(st, "def.%s@%s" % (name, self._where(n)), dom, "def", n)
        for a in axioms:
            if st.guards and dom is not None:
                st.assume(z3.Implies(z3.And(*st.guards), a))
            else:
                st.assume(a)
        return y

    def math_domain(self, name, x):
        if name == "sqrt":
            return x >= 0
        if name in ("acos", "asin"):
            return z3.And(x >= -1, x <= 1)
        if name in ("log", "log10"):
            return x > 0
        if name == "acosh":
            return x >= 1
        if name == "atanh":
            return z3.And(x > -1, x < 1)
        return None

    def trig_pair(self, x):
        """(sin x, cos x) as uninterpreted applications with s^2+c^2=1 recorded once."""
        x = simp(as_real(x))
        s = self.uf("sin", z3.RealSort(), z3.RealSort())(x)
        c = self.uf("cos", z3.RealSort(), z3.RealSort())(x)
        return s, c

    def math_axioms(self, name, x, y):
        R = z3.RealVal
        if name == "sqrt":
            return [y * y == x, y >= 0]
        if name in ("sin", "cos"):
            s, c = self.trig_pair(x)
            ax = [s * s + c * c == 1]
            if z3.is_rational_value(x) and x.numerator_as_long() == 0:
                ax += [s == 0, c == 1]
            return ax
        if name == "cbrt":
            return [y * y * y == x]
        if name in ("sinh", "cosh"):
            s = self.uf("sinh", z3.RealSort(), z3.RealSort())(x)
            c = self.uf("cosh", z3.RealSort(), z3.RealSort())(x)
            return [c * c - s * s == 1, c >= 1]
        if name == "exp":
            return [y > 0]
        if name == "acos":
            c = self.uf("cos", z3.RealSort(), z3.RealSort())(y)
            s = self.uf("sin", z3.RealSort(), z3.RealSort())(y)
            return [c == x, s >= 0, s * s + c * c == 1, y >= 0, y <= self.pi()]
        if name == "asin":
            c = self.uf("cos", z3.RealSort(), z3.RealSort())(y)
            s = self.uf("sin", z3.RealSort(), z3.RealSort())(y)
            return [s == x, c >= 0, s * s + c * c == 1]
        if name == "tan":
            s, c = self.trig_pair(x)
            return [s * s + c * c == 1, z3.Implies(c != 0, y * c == s)]
        if name == "acosh":
            c = self.uf("cosh", z3.RealSort(), z3.RealSort())(y)
            s = self.uf("sinh", z3.RealSort(), z3.RealSort())(y)
            return [c == x, s >= 0, c * c - s * s == 1, y >= 0]
        if name == "log":
            return [self.uf("exp", z3.RealSort(), z3.RealSort())(y) == x]
        return []

    def pi(self):
        p = self.math_cache.get("pi")
        if p is None:
            p = self.math_cache["pi"] = z3.Real("M_PI")
        return p

    def pi_axioms(self):
        p = self.pi()
        return [p > z3.RealVal("3.14159265358979"), p < z3.RealVal("3.14159265358980")]

    def bi_fabs(self, st, args, n):
        x = as_real(args[0])
        return z3.If(x >= 0, x, -x)

    def bi_abs(self, st, args, n):
        x = as_int(args[0])
        return z3.If(x >= 0, x, -x)

    bi_labs = bi_abs
    bi_llabs = bi_abs

    def bi_fmax(self, st, args, n):
        a, b = as_real(args[0]), as_real(args[1])
        return z3.If(a >= b, a, b)

    def bi_fmin(self, st, args, n):
        a, b = as_real(args[0]), as_real(args[1])
        return z3.If(a <= b, a, b)

    def bi_copysign(self, st, args, n):
        a, b = as_real(args[0]), as_real(args[1])
        m = z3.If(a >= 0, a, -a)
        return z3.If(b >= 0, m, -m)      # sign of -0.0 not modelled

    def bi_pow(self, st, args, n):
        a, b = as_real(args[0]), simp(as_real(args[1]))
        if z3.is_rational_value(b) and b.denominator_as_long() == 1 and 0 <= b.numerator_as_long() <= 8:
            r = z3.RealVal(1)
            for _ in range(b.numerator_as_long()):
                r = r * a
            return r
        if z3.is_rational_value(b) and b.numerator_as_long() == 1 and b.denominator_as_long() == 2:
            return self.math1(st, "sqrt", a, n)
        return self.uf("pow", z3.RealSort(), z3.RealSort(), z3.RealSort())(a, b)

    def bi_atan2(self, st, args, n):
        y, x = simp(as_real(args[0])), simp(as_real(args[1]))
        key = ("atan2", y.get_id(), x.get_id())
        hit = self.math_cache.get(key)
        if hit is None:
            t = self.uf("atan2", z3.RealSort(), z3.RealSort(), z3.RealSort())(y, x)
            s, c = self.trig_pair(t)
            rho = self.uf("hypot", z3.RealSort(), z3.RealSort(), z3.RealSort())(y, x)
            ax = [s * s + c * c == 1, rho >= 0, rho * rho == x * x + y * y, rho * c == x, rho * s == y,
                  t <= self.pi(), t >= -self.pi()]
            hit = self.math_cache[key] = (t, ax)
        for a in hit[1]:
            st.assume(a)
        return hit[0]

    def bi_fmod(self, st, args, n):
        a, b = as_real(args[0]), as_real(args[1])
        if self.check_defined:
            self.check_then_assume(st, "def.fmod@%s" % self._where(n), b != 0, "def", n)
        q = self.uf("fmodq", z3.RealSort(), z3.RealSort(), z3.IntSort())(a, b)
        r = a - z3.ToReal(q) * b
        ab = z3.If(b >= 0, b, -b)
        st.assume(z3.Implies(b != 0, z3.And(z3.If(a >= 0, z3.And(r >= 0, r < ab), z3.And(r <= 0, r > -ab)))))
        return r

    def bi_isnan(self, st, args, n):
        h = st.ghost.get("isnan")
        if h is not None:
            return h(self, st, args[0])
        return z3.BoolVal(False)     # R-mode: NaN does not exist

    bi___builtin_isnan = bi_isnan
    bi_isinf = bi_isnan
    bi___builtin_isinf_sign = bi_isnan

    def bi_isfinite(self, st, args, n):
        return z3.BoolVal(True)

    bi___builtin_isfinite = bi_isfinite

    def bi___builtin_isnormal(self, st, args, n):
        return as_real(args[0]) != 0      # R-mode: subnormals/NaN/Inf do not exist

    bi_isnormal = bi___builtin_isnormal

    def bi_nan(self, st, args, n):
        return z3.Real("NAN")

    def bi_exit(self, st, args, n):
        raise PathEnd("exit")

    bi_abort = bi_exit

    # ================================================================== function bodies
    def exec_function(self, st, tu, fn, args):
        """Execute a function body in place on `st` (single-path execution; forks are taken through
        the decision oracle of engine.paths).  Returns the return value."""
        name = fn["name"]
        self.functions_seen.setdefault(name, (fn.get("_relfile"), fn.get("_line")))
        params = tu.params(fn)
        frame = {}
        for i, p in enumerate(params):
            pt = tu.node_type(p)
            v = args[i] if i < len(args) else None
            if isinstance(v, StructObj):
                v = v.clone()
            c = st.mem.add(Cell(pt, self._coerce_store(None, v, pt, st), p.get("name")))
            frame[p["id"]] = c.id
        saved_va = st.ghost.get("va_list")
        if len(args) > len(params):
            st.ghost["va_list"] = list(args[len(params):])
        st.frames.append(frame)
        self.callstack.append(name)
        tus_saved = self.tus
        if tu is not self.tus[0]:
            self.tus = [tu] + [t for t in self.tus if t is not tu]
        try:
            fl = self.exec_stmt(st, tu.body(fn))
        finally:
            self.callstack.pop()
            self.tus = tus_saved
        st.frames.pop()
        if saved_va is not None:
            st.ghost["va_list"] = saved_va
        if fl.kind == Flow.RETURN:
            return fl.value
        if fl.kind == Flow.NORMAL:
            return None
        raise Unsupported("flow %d escapes function %s" % (fl.kind, name))

    def global_object(self, st, name, ref=None):
        key = "global:" + name
        oid = st.ghost.get(key)
        if oid is not None:
            return st.mem.get(oid)
        ov = getattr(self, "global_overrides", {}).get(name)
        if ov is not None:
            v = ov(self, st)
            obj = st.mem.add(v)
            st.ghost[key] = obj.id
            return obj
        decl = None
        for t in self.tus:
            if name in t.globals:
                decl = t.globals[name]
                if decl.get("inner"):
                    break
        if decl is None:
            raise Unsupported("global %s not found" % name)
        t = self.tu0.node_type(decl)
        q = decl.get("type", {}).get("qualType", "")
        init = [c for c in decl.get("inner", ()) if c.get("kind") not in ("FullComment",) and "Attr" not in c.get("kind", "")]
        is_const = "const" in q.split("*")[-1] or (t.kind == "array" and "const" in q) or \
            name in getattr(self, "const_globals", ())
        if init and is_const:
            v = self._init_value(st, init[0], t)
        else:
            v = self.sym_value(t, "g_" + name)
        if isinstance(v, ArrObj):
            v.name = name
            obj = st.mem.add(v)
            if v.length is None and v.mode == "list":
                v.length = len(v.items)
        else:
            obj = st.mem.add(Cell(t, v, name))
        st.ghost[key] = obj.id
        return obj


class PathEnd(Exception):
    """The current path ends here (exit(), loop-body check finished, infeasible)."""
    pass


class CannotMerge(Exception):
    pass
