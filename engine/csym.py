"""csym -- symbolic executor / verification-condition generator over the clang AST of the real code.

Doubles are reals (R-mode) unless a pack installs uninterpreted operators (U-mode);
C integers are mathematical integers (Z-mode).  Every division, sqrt, acos, log generates a
definedness obligation.  Obligations are collected in `Engine.obligations` and discharged by
engine.backends.
"""
import re, sys, itertools
from fractions import Fraction
import z3
from .mem import Ptr, NULL, Opaque, FuncRef, Cell, StructObj, ArrObj, Memory
from . import cfront


class Unsupported(Exception):
    pass


class NeedsInvariant(Unsupported):
    pass


# ------------------------------------------------------------------ small z3 helpers
def is_z3(v):
    return isinstance(v, z3.ExprRef)


def simp(v):
    return z3.simplify(v) if is_z3(v) else v


def const_int(v):
    """python int if the term is a concrete integer, else None"""
    if isinstance(v, bool):
        return int(v)
    if isinstance(v, int):
        return v
    if is_z3(v):
        s = z3.simplify(v)
        if z3.is_int_value(s):
            return s.as_long()
        if z3.is_true(s):
            return 1
        if z3.is_false(s):
            return 0
    return None


def as_bool(v):
    if isinstance(v, bool):
        return z3.BoolVal(v)
    if isinstance(v, int):
        return z3.BoolVal(v != 0)
    if isinstance(v, Ptr):
        if v.obj is None:
            return z3.BoolVal(False)
        if v.null is False:
            return z3.BoolVal(True)
        if v.null is True:
            return z3.BoolVal(False)
        return z3.Not(v.null)
    if isinstance(v, (Opaque, FuncRef)):
        if isinstance(v, Opaque) and is_z3(v.tag):
            return v.tag
        return z3.BoolVal(True)
    if z3.is_bool(v):
        return v
    return v != 0


def as_int(v):
    if isinstance(v, bool):
        return z3.IntVal(int(v))
    if isinstance(v, int):
        return z3.IntVal(v)
    if z3.is_bool(v):
        return z3.If(v, z3.IntVal(1), z3.IntVal(0))
    if z3.is_real(v):
        return ctrunc(v)
    return v


def as_real(v):
    if isinstance(v, (int, Fraction)):
        return z3.RealVal(v)
    if isinstance(v, float):
        return z3.RealVal(Fraction(v))
    if z3.is_bool(v):
        return z3.If(v, z3.RealVal(1), z3.RealVal(0))
    if z3.is_int(v):
        return z3.ToReal(v)
    return v


def ctrunc(x):
    """C double -> integer conversion (truncation toward zero)"""
    x = as_real(x)
    return z3.If(x >= 0, z3.ToInt(x), -z3.ToInt(-x))


def cdiv(a, b):
    ca, cb = const_int(a), const_int(b)
    if ca is not None and cb is not None and cb != 0:
        q = abs(ca) // abs(cb)
        return z3.IntVal(q if (ca >= 0) == (cb > 0) else -q)
    if cb is not None and cb > 0:
        return z3.If(a >= 0, a / b, -((-a) / b))
    return z3.If(b > 0, z3.If(a >= 0, a / b, -((-a) / b)), z3.If(a >= 0, -(a / (-b)), (-a) / (-b)))


def cmod(a, b):
    return a - b * cdiv(a, b)


def sort_of(ctype):
    if ctype.kind == "float":
        return z3.RealSort()
    return z3.IntSort()


# ------------------------------------------------------------------ state
class Flow:
    NORMAL, BREAK, CONTINUE, RETURN, GOTO = range(5)

    def __init__(self, kind=0, value=None, label=None):
        self.kind, self.value, self.label = kind, value, label


NORMAL = Flow(Flow.NORMAL)


class State:
    def __init__(self):
        self.mem = Memory()
        self.frames = [{}]          # declid -> object id
        self.pc = []                # path condition + assumptions (z3 Bool list)
        self.guards = []            # short-circuit guards active while evaluating an expression
        self.trace = []             # ghost trace (opword)
        self.ghost = {}
        self.depth = 0
        self.log = None             # write log (set of (objid, leaf)) when recording

    def clone(self):
        s = State.__new__(State)
        s.mem = self.mem.clone()
        s.frames = [dict(f) for f in self.frames]
        s.pc = list(self.pc)
        s.guards = list(self.guards)
        s.trace = list(self.trace)
        s.ghost = dict(self.ghost)
        s.depth = self.depth
        s.log = self.log
        return s

    def assume(self, c):
        if c is True:
            return
        self.pc.append(c)

    def hyps(self):
        return self.pc + self.guards


class Obligation:
    __slots__ = ("name", "hyps", "goal", "kind", "where", "verdict", "backend", "time", "detail", "model", "meta")

    def __init__(self, name, hyps, goal, kind="post", where=None, meta=None):
        self.name, self.hyps, self.goal, self.kind, self.where = name, list(hyps), goal, kind, where
        self.verdict = None
        self.backend = None
        self.time = 0.0
        self.detail = ""
        self.model = None
        self.meta = meta or {}


class LoopSpec:
    def __init__(self, invariant=None, variant=None, unroll=None, havoc_extra=None, mode=None, label=None, accumulate=None):
        self.invariant = invariant   # callable(L) -> z3 Bool or list of (name, Bool)
        self.variant = variant       # callable(L) -> z3 Int term (must decrease, >= 0)
        self.unroll = unroll
        self.havoc_extra = havoc_extra
        self.mode = mode
        self.label = label
        self.accumulate = accumulate


class Contract:
    """Modular contract of a callee used at call sites instead of its body."""

    def __init__(self, name, apply):
        self.name = name
        self.apply = apply     # callable(engine, state, args, node) -> return value ; may add obligations/assumptions


# ------------------------------------------------------------------ engine
MATH_UNARY = ("sqrt", "sin", "cos", "tan", "acos", "asin", "atan", "exp", "log", "cbrt", "cosh", "sinh", "tanh",
              "acosh", "asinh", "atanh", "floor", "ceil", "round", "log10")


class Engine:
    def __init__(self, files, repo=None, prefix=""):
        self.tus = [cfront.tu(f, repo) for f in files]
        self.obligations = []
        self.contracts = {}
        self.loopspecs = {}          # (fn, ordinal) -> LoopSpec
        self.fresh_n = itertools.count()
        self.prefix = prefix
        self.inline_depth = 6
        self.ufs = {}
        self.math_cache = {}
        self.unroll_limit = 5000
        self.callstack = []
        self.trace_prims = {}        # fn name -> callable(engine, state, args) for opword
        self.no_inline = set()
        self.unsupported = []
        self.check_defined = True
        self.loop_counter = {}
        self.global_objs = {}        # name -> object (template, cloned into states lazily)
        self.havoc_calls = set()     # function names treated as havoc/no-op (printf family etc.)
        self.functions_seen = {}     # name -> (file, line)
        self.umode = False
        self.merge_ifs = True
        self.assume_after_check = True

    # -- lookup ----------------------------------------------------------------
    def find_function(self, name):
        for t in self.tus:
            f = t.functions.get(name)
            if f is not None:
                return t, f
        return None, None

    @property
    def tu0(self):
        return self.tus[0]

    def ctype(self, q):
        return self.tu0.ctype(q)

    def records(self, name):
        for t in self.tus:
            if name in t.records:
                return t.records[name]
        raise Unsupported("unknown record " + str(name))

    def enum(self, name):
        for t in self.tus:
            if name in t.enums:
                return t.enums[name]
        raise KeyError(name)

    def fresh(self, name, ctype_or_sort):
        s = ctype_or_sort if isinstance(ctype_or_sort, z3.SortRef) else sort_of(ctype_or_sort)
        return z3.Const("%s!%d" % (name, next(self.fresh_n)), s)

    def uf(self, name, *sorts):
        key = (name,) + tuple(str(s) for s in sorts)
        f = self.ufs.get(key)
        if f is None:
            f = self.ufs[key] = z3.Function("m_" + name, *sorts)
        return f

    # -- obligations -----------------------------------------------------------
    def oblige(self, state, name, goal, kind="post", node=None, extra_hyps=()):
        if isinstance(goal, bool):
            goal = z3.BoolVal(goal)
        g = z3.simplify(goal)
        where = None
        if node is not None:
            where = node.get("_line")
        ob = Obligation(self.prefix + name, state.hyps() + list(extra_hyps), goal, kind, where)
        ob.meta["ctx"] = getattr(self, "current_ctx", None)
        if z3.is_true(g):
            ob.verdict, ob.backend = "proved", "simplify"
        self.obligations.append(ob)
        return ob

    def check_then_assume(self, state, name, goal, kind, node=None):
        ob = self.oblige(state, name, goal, kind, node)
        if self.assume_after_check and ob.verdict != "proved":
            if state.guards:
                state.assume(z3.Implies(z3.And(*state.guards), goal))
            else:
                state.assume(goal)
        return ob

    # -- symbolic values -------------------------------------------------------
    def sym_value(self, ctype, name, state=None):
        """A fresh symbolic value of C type `ctype` (by value)."""
        k = ctype.kind
        if k in ("int", "enum", "float"):
            return z3.Const(name, sort_of(ctype))
        if k == "struct" or k == "union":
            return StructObj(ctype, {}, name=name)
        if k == "array":
            return self.new_array(ctype.to, ctype.n, name)
        if k == "ptr":
            return Opaque("ptr:" + name, tag=z3.Bool(name + "!nonnull"))
        raise Unsupported("sym_value of " + repr(ctype))

    def new_array(self, elem, n, name, force_sym=False):
        if isinstance(n, int) and n <= 64 and not force_sym:
            a = ArrObj(elem, n, "list", name)
            a.items = [self.sym_value(elem, "%s[%d]" % (name, i)) for i in range(n)]
            return a
        a = ArrObj(elem, n, "sym", name)
        a.leaves = {}
        a.leaf_types = dict(self.leaf_paths(elem))
        return a

    def leaf_paths(self, ctype, prefix=()):
        """[(leafpath, ctype)] of scalar/pointer leaves of a type."""
        k = ctype.kind
        if k in ("int", "enum", "float", "ptr", "func"):
            return [(prefix, ctype)]
        if k in ("struct", "union"):
            out = []
            for (fname, q, _id) in self.records(ctype.name):
                out += self.leaf_paths(self.ctype(q), prefix + (fname,))
            return out
        if k == "array":
            out = []
            for i in range(ctype.n or 0):
                out += self.leaf_paths(ctype.to, prefix + (i,))
            return out
        raise Unsupported("leaf_paths " + repr(ctype))

    def field_type(self, structname, field):
        for (fname, q, _id) in self.records(structname):
            if fname == field:
                return self.ctype(q)
        raise Unsupported("no field %s in %s" % (field, structname))

    def zero_value(self, ctype):
        k = ctype.kind
        if k in ("int", "enum"):
            return z3.IntVal(0)
        if k == "float":
            return z3.RealVal(0)
        if k == "ptr":
            return NULL
        if k in ("struct", "union"):
            s = StructObj(ctype, {})
            for (fname, q, _id) in self.records(ctype.name):
                s.fields[fname] = self.zero_value(self.ctype(q))
            return s
        if k == "array":
            a = ArrObj(ctype.to, ctype.n, "list")
            a.items = [self.zero_value(ctype.to) for _ in range(ctype.n or 0)]
            return a
        raise Unsupported("zero_value " + repr(ctype))

    # pointer <-> int encoding for pointer leaves stored in z3 arrays
    def ptr_to_int(self, p):
        if isinstance(p, Ptr):
            if p.obj is None:
                return z3.IntVal(0)
            if not p.path:
                return z3.IntVal(p.obj)
            key = ("ptrenc", p.obj, tuple(str(x) for x in p.path))
            if key not in self.math_cache:
                self.math_cache[key] = (z3.IntVal(10**9 + len(self.math_cache)), p)
            return self.math_cache[key][0]
        if isinstance(p, Opaque):
            key = ("opq", id(p))
            if key not in self.math_cache:
                self.math_cache[key] = (self.fresh("opaqueptr", z3.IntSort()), p)
            return self.math_cache[key][0]
        if isinstance(p, FuncRef):
            return z3.Int("fn_" + p.name)
        if is_z3(p):
            return p
        raise Unsupported("ptr_to_int %r" % (p,))

    def int_to_ptr(self, v, state):
        c = const_int(v)
        if c == 0:
            return NULL
        if c is not None:
            if c in state.mem.objs:
                return Ptr(c, ())
            for key, val in self.math_cache.items():
                # math_cache also holds non-pointer entries (booleans, dicts, strings as keys): look at ptrenc ones only
                if isinstance(key, tuple) and key and key[0] == "ptrenc" and val[0].as_long() == c:
                    return val[1]
        o = Opaque("ptrval", tag=(v != 0))
        # remember the integer encoding: storing this pointer value again (struct copy a[j] = a[j+1]) must write
        # the same value back, not a fresh unknown (math_cache keeps `o` alive, so id(o) stays unique)
        self.math_cache[("opq", id(o))] = (v, o)
        return o

    # -- memory access ---------------------------------------------------------
    def _lazy_field(self, sobj, fname, state):
        if fname in sobj.fields:
            return sobj.fields[fname]
        ft = self.field_type(sobj.ctype.name, fname)
        nm = "%s.%s" % (sobj.name or "obj%d" % sobj.id, fname)
        v = self.sym_value(ft, nm)
        sobj.fields[fname] = v
        return v

    def _leaf_array(self, arr, leaf):
        a = arr.leaves.get(leaf)
        if a is None:
            lt = arr.leaf_types.get(leaf)
            if lt is None:
                raise Unsupported("no leaf %r in array %s" % (leaf, arr.name))
            srt = z3.IntSort() if lt.kind in ("ptr", "func") else sort_of(lt)
            nm = "%s.%s" % (arr.name or "arr%d" % arr.id, ".".join(str(x) for x in leaf)) if leaf else (arr.name or "arr%d" % arr.id)
            a = z3.Array(nm, z3.IntSort(), srt)
            arr.leaves[leaf] = a
        return a

    def read(self, state, ptr, node=None):
        """Value stored at pointer (rvalue); struct values are returned as detached copies."""
        if not isinstance(ptr, Ptr):
            raise Unsupported("dereference of %r" % (ptr,))
        self.check_deref(state, ptr, node)
        v = state.mem.get(ptr.obj)
        path = list(ptr.path)
        while True:
            if isinstance(v, Cell):
                v = v.value
                continue
            if not path:
                break
            item = path.pop(0)
            if isinstance(v, StructObj):
                if not isinstance(item, str):
                    if const_int(item) == 0:
                        continue
                    raise Unsupported("index into struct")
                v = self._lazy_field(v, item, state)
            elif isinstance(v, ArrObj):
                if type(item).__name__ == "View":
                    return self.read_view(state, v, item, path, node)
                self.check_index(state, v, item, node)
                if v.mode == "list":
                    ci = const_int(item)
                    if ci is None:
                        # symbolic index into a small concrete array: ite chain over scalar items
                        if path:
                            raise Unsupported("symbolic index into list array with sub-path")
                        items = v.items
                        if not items or not all(is_z3(x) for x in items):
                            raise Unsupported("symbolic index into non-scalar list array")
                        r = items[-1]
                        for k in range(len(items) - 2, -1, -1):
                            r = z3.If(item == k, items[k], r)
                        return r
                    if ci < 0 or ci >= len(v.items):
                        raise Unsupported("index %d out of range of %s[%d]" % (ci, v.name, len(v.items)))
                    v = v.items[ci]
                else:
                    leaf = tuple(const_int(p) if not isinstance(p, str) else p for p in path)
                    if leaf in v.leaf_types:
                        lt = v.leaf_types[leaf]
                        val = z3.Select(self._leaf_array(v, leaf), as_int(item))
                        if lt.kind in ("ptr", "func"):
                            return self.int_to_ptr(val, state)
                        return val
                    # struct (sub)snapshot
                    sub = v.elem
                    for p in leaf:
                        sub = self.field_type(sub.name, p) if isinstance(p, str) else sub.to
                    return self._snapshot_from_sym(v, as_int(item), leaf, sub, state)
            elif isinstance(v, Ptr):
                # path continues through a pointer value: (*p).f
                path.insert(0, item)
                return self.read(state, Ptr(v.obj, tuple(v.path) + tuple(path)), node)
            else:
                raise Unsupported("cannot walk %r through %r" % (item, v))
        if isinstance(v, StructObj):
            return self._detach(v, state)
        if isinstance(v, ArrObj):
            return v
        if v is None:
            raise Unsupported("read of uninitialised location")
        return v

    def _detach(self, sobj, state):
        # make sure all fields exist (lazy), then copy
        if sobj.ctype.kind in ("struct", "union") and sobj.ctype.name in self.tu0.records or self._has_record(sobj.ctype.name):
            for (fname, q, _id) in self.records(sobj.ctype.name):
                self._lazy_field(sobj, fname, state)
        c = sobj.clone()
        c.id = -1
        return c

    def _has_record(self, name):
        return any(name in t.records for t in self.tus)

    def _snapshot_from_sym(self, arr, idx, leafprefix, ctype, state):
        s = StructObj(ctype, {})
        for (fname, q, _id) in self.records(ctype.name):
            ft = self.ctype(q)
            lp = leafprefix + (fname,)
            if ft.kind in ("struct", "union"):
                s.fields[fname] = self._snapshot_from_sym(arr, idx, lp, ft, state)
            elif ft.kind == "array":
                a = ArrObj(ft.to, ft.n, "list")
                a.items = []
                for i in range(ft.n or 0):
                    if ft.to.kind in ("struct", "union"):
                        a.items.append(self._snapshot_from_sym(arr, idx, lp + (i,), ft.to, state))
                    else:
                        a.items.append(z3.Select(self._leaf_array(arr, lp + (i,)), idx))
                s.fields[fname] = a
            elif ft.kind in ("ptr", "func"):
                s.fields[fname] = self.int_to_ptr(z3.Select(self._leaf_array(arr, lp), idx), state)
            else:
                s.fields[fname] = z3.Select(self._leaf_array(arr, lp), idx)
        return s

    def write(self, state, ptr, value, node=None):
        if not isinstance(ptr, Ptr):
            raise Unsupported("store through %r" % (ptr,))
        self.check_deref(state, ptr, node)
        obj = state.mem.get(ptr.obj)
        path = list(ptr.path)
        holder, key = None, None      # where the final value is stored
        v = obj
        while True:
            if isinstance(v, Cell):
                if not path:
                    self._logw(state, v.id, ())
                    v.value = self._coerce_store(v.value, value, v.ctype, state)
                    return
                if isinstance(v.value, Ptr):
                    return self.write(state, Ptr(v.value.obj, tuple(v.value.path) + tuple(path)), value, node)
                v = v.value
                continue
            if not path:
                # overwrite a whole struct/array object in place
                if isinstance(v, StructObj) and isinstance(value, StructObj):
                    self._logw(state, ptr.obj, tuple(str(p) for p in ptr.path))
                    v.fields = value.clone().fields
                    return
                raise Unsupported("store of %r over %r" % (value, v))
            item = path.pop(0)
            if isinstance(v, StructObj):
                if not isinstance(item, str):
                    if const_int(item) == 0:
                        continue
                    raise Unsupported("index into struct")
                if not path:
                    old = self._lazy_field(v, item, state) if item not in v.fields else v.fields[item]
                    ft = self.field_type(v.ctype.name, item)
                    self._logw(state, ptr.obj, tuple(str(p) for p in ptr.path))
                    if isinstance(old, StructObj) and isinstance(value, StructObj):
                        old.fields = value.clone().fields
                    elif isinstance(old, ArrObj) and isinstance(value, ArrObj):
                        v.fields[item] = value.clone()
                    else:
                        v.fields[item] = self._coerce_store(old, value, ft, state)
                    return
                nxt = self._lazy_field(v, item, state)
                if isinstance(nxt, Ptr):
                    return self.write(state, Ptr(nxt.obj, tuple(nxt.path) + tuple(path)), value, node)
                v = nxt
            elif isinstance(v, ArrObj):
                self.check_index(state, v, item, node)
                if v.mode == "list":
                    ci = const_int(item)
                    if ci is None:
                        if path or not all(is_z3(x) for x in v.items):
                            raise Unsupported("symbolic store index into list array")
                        self._logw(state, ptr.obj, ("*",))
                        val = self._coerce_store(v.items[0], value, v.elem, state)
                        v.items = [z3.If(item == k, val, v.items[k]) for k in range(len(v.items))]
                        return
                    if ci < 0 or ci >= len(v.items):
                        raise Unsupported("store index %d out of range of %s" % (ci, v.name))
                    if not path:
                        self._logw(state, ptr.obj, tuple(str(p) for p in ptr.path))
                        old = v.items[ci]
                        if isinstance(old, StructObj) and isinstance(value, StructObj):
                            old.fields = value.clone().fields
                        else:
                            v.items[ci] = self._coerce_store(old, value, v.elem, state)
                        return
                    nxt = v.items[ci]
                    if isinstance(nxt, Ptr):
                        return self.write(state, Ptr(nxt.obj, tuple(nxt.path) + tuple(path)), value, node)
                    v = nxt
                else:
                    idx = as_int(item)
                    leaf = tuple(const_int(p) if not isinstance(p, str) else p for p in path)
                    if leaf in v.leaf_types:
                        lt = v.leaf_types[leaf]
                        self._logw(state, v.id, leaf)
                        if lt.kind in ("ptr", "func"):
                            val = self.ptr_to_int(value)
                        else:
                            val = as_real(value) if lt.kind == "float" else as_int(value)
                        v.leaves[leaf] = z3.Store(self._leaf_array(v, leaf), idx, val)
                        return
                    # struct store: every leaf below
                    self._store_struct_sym(state, v, idx, leaf, value)
                    return
            else:
                raise Unsupported("cannot walk %r through %r (write)" % (item, v))

    def _store_struct_sym(self, state, arr, idx, leafprefix, value):
        if isinstance(value, StructObj):
            for (fname, q, _id) in self.records(value.ctype.name):
                fv = self._lazy_field(value, fname, state)
                self._store_struct_sym(state, arr, idx, leafprefix + (fname,), fv)
        elif isinstance(value, ArrObj):
            if value.mode != "list":
                raise Unsupported("store of symbolic inline array")
            for i, it in enumerate(value.items):
                self._store_struct_sym(state, arr, idx, leafprefix + (i,), it)
        else:
            lt = arr.leaf_types[leafprefix]
            self._logw(state, arr.id, leafprefix)
            if lt.kind in ("ptr", "func"):
                val = self.ptr_to_int(value)
            else:
                val = as_real(value) if lt.kind == "float" else as_int(value)
            arr.leaves[leafprefix] = z3.Store(self._leaf_array(arr, leafprefix), idx, val)

    def _coerce_store(self, old, value, ctype, state):
        if ctype is not None and is_z3(value) or isinstance(value, (int, bool, float, Fraction)):
            if ctype.kind == "float":
                return as_real(value)
            if ctype.kind in ("int", "enum"):
                v = as_int(value)
                if ctype.kind == "int" and ctype.bits == 1:
                    return as_int(as_bool(v))
                return v
            if ctype.kind == "ptr":
                c = const_int(value)
                if c == 0:
                    return NULL
                return self.int_to_ptr(value, state)
        if isinstance(value, StructObj):
            return value.clone()
        return value

    def _logw(self, state, oid, leaf):
        if state.log is not None:
            state.log.add((oid, leaf))

    # memory-safety obligations
    def check_deref(self, state, ptr, node):
        if ptr.obj is None:
            self.oblige(state, "deref.nonnull@%s" % self._where(node), z3.BoolVal(False), "mem", node)
            raise Unsupported("NULL dereference")
        if ptr.null is not False and ptr.null is not True:
            self.check_then_assume(state, "deref.nonnull@%s" % self._where(node), z3.Not(ptr.null), "mem", node)
        o = state.mem.objs.get(ptr.obj)
        if isinstance(o, ArrObj) and o.freed is not False:
            fr = o.freed if is_z3(o.freed) else z3.BoolVal(True)
            self.check_then_assume(state, "deref.notfreed@%s" % self._where(node), z3.Not(fr), "mem", node)

    def check_index(self, state, arr, idx, node):
        if arr.length is None or not self.check_defined:
            return
        ci = const_int(idx)
        cl = const_int(arr.length)
        if ci is not None and cl is not None:
            if not (0 <= ci < cl):
                self.oblige(state, "index.inbounds@%s" % self._where(node), z3.BoolVal(False), "mem", node)
            return
        i = as_int(idx)
        self.check_then_assume(state, "index.inbounds@%s" % self._where(node),
                               z3.And(i >= 0, i < arr.length), "mem", node)

    def _where(self, node):
        fn = self.callstack[-1] if self.callstack else "?"
        n = self.loop_counter.setdefault(("ob", fn), itertools.count())
        # no line number in the name: a harmless edit above must not rename obligations (the line is kept in `where`)
        return "%s#%d" % (fn, next(n))
