"""api -- what a contract pack sees: Pack / task registration and the TaskCtx harness helpers.

A *task* is a contract on one real function (or a lemma over contracts): it builds symbolic inputs
constrained by the precondition, symbolically executes the real body (callees by contract or inlined),
and states the postcondition clauses with `prove`.  Every `prove`, every call-site precondition, loop
obligation, definedness and memory-safety condition becomes an Obligation.
"""
import os, sys, time, traceback, json, re
import z3
from .mem import Ptr, NULL, Opaque, FuncRef, Cell, StructObj, ArrObj
from .csym import State, Unsupported, NeedsInvariant, LoopSpec, Contract, is_z3, simp, const_int, as_bool, as_int, as_real
from .cstmt import Sym, LoopView
from .cexec import PathEnd
from . import backends, cfront


class SV:
    """Attribute view of a struct value: sv.x, sv.ri_whfast.p_jh ..."""

    def __init__(self, ctx, sobj, parent=None, name=None):
        object.__setattr__(self, "_ctx", ctx)
        object.__setattr__(self, "_s", sobj)
        object.__setattr__(self, "_parent", parent)
        object.__setattr__(self, "_name", name)

    def _cur(self):
        """The object as it is in the current state: cloning a state (fork) or merging the two branches of an `if` replaces
        the objects of the memory by copies (same id), so look the id up again; a nested struct (r.ri_whfast) has no id of
        its own and is re-resolved through its parent, so that a view taken before a call still reads the current state
        after it (a stale nested view silently returned the values of the state it was taken in)."""
        s = self._s
        o = self._ctx.st.mem.objs.get(s.id) if isinstance(s.id, int) and s.id > 0 else None
        if isinstance(o, StructObj):
            return o
        par = self._parent
        if par is not None:
            pc = par._cur()
            sub = pc.fields.get(self._name)
            if isinstance(sub, StructObj):
                return sub
        return s

    def __getattr__(self, name):
        v = self._ctx.eng._lazy_field(self._cur(), name, self._ctx.st)
        if isinstance(v, StructObj):
            return SV(self._ctx, v, self, name)
        return self._ctx.wrap(v)

    def __setattr__(self, name, value):
        self._cur().fields[name] = self._ctx.unwrap(value)

    def __getitem__(self, name):
        return getattr(self, name)

    def __setitem__(self, name, value):
        setattr(self, name, value)


class AV:
    """View of an array object: av[i] -> element (term or SV snapshot), av.f(i) for leaf selects."""

    def __init__(self, ctx, arr):
        self._ctx, self._a = ctx, arr

    def __getitem__(self, i):
        ctx = self._ctx
        if self._a.id not in ctx.st.mem.objs:          # inline array inside a struct value
            return ctx.wrap(self._a.items[const_int(i)])
        a = ctx.st.mem.objs[self._a.id]
        v = ctx.eng.read(ctx.st, Ptr(a.id, (as_int(i),)))
        return ctx.wrap(v)

    def __setitem__(self, i, value):
        ctx = self._ctx
        if self._a.id not in ctx.st.mem.objs:
            self._a.items[const_int(i)] = ctx.unwrap(value)
            return
        ctx.eng.write(ctx.st, Ptr(self._a.id, (as_int(i),)), ctx.unwrap(value))

    def leaf(self, i, *path):
        ctx = self._ctx
        a = ctx.st.mem.objs.get(self._a.id, self._a)
        if a.mode == "sym":
            return z3.Select(ctx.eng._leaf_array(a, tuple(path)), as_int(i))
        v = a.items[const_int(i)]
        for p in path:
            v = ctx.eng._lazy_field(v, p, ctx.st) if isinstance(p, str) else v.items[p]
        return v

    def array(self, *path):
        a = self._ctx.st.mem.objs.get(self._a.id, self._a)
        return self._ctx.eng._leaf_array(a, tuple(path))

    @property
    def ptr(self):
        return Ptr(self._a.id, (z3.IntVal(0),), False)

    @property
    def obj(self):
        return self._ctx.st.mem.objs.get(self._a.id, self._a)


class TaskCtx:
    def __init__(self, eng, task):
        self.eng = eng
        self.task = task
        self.st = State()
        eng.current_ctx = self
        self.inputs = []      # (name, ctype, value) symbolic by-value inputs, for replay
        self.calls = []
        self.outputs = []

    # -- values ----------------------------------------------------------------
    def wrap(self, v):
        if isinstance(v, StructObj):
            return SV(self, v)
        if isinstance(v, ArrObj):
            return AV(self, v)
        return v

    def unwrap(self, v):
        if isinstance(v, SV):
            return v._s
        if isinstance(v, AV):
            return v.ptr
        if isinstance(v, (int, float)) and not isinstance(v, bool):
            return z3.RealVal(v) if isinstance(v, float) else z3.IntVal(v)
        return v

    def real(self, name):
        v = z3.Real(name)
        self.inputs.append((name, "double", v))
        return v

    def int(self, name):
        v = z3.Int(name)
        self.inputs.append((name, "int", v))
        return v

    def struct(self, ctype, name):
        t = self.eng.ctype(ctype)
        s = self.eng.sym_value(t, name)
        self.inputs.append((name, ctype, s))
        return SV(self, s)

    def struct_obj(self, ctype, name):
        """A struct object in memory (addressable); returns (SV view, pointer)."""
        t = self.eng.ctype(ctype)
        s = StructObj(t, {}, name=name)
        self.st.mem.add(s)
        self.inputs.append((name, ctype + "*", s))
        return SV(self, s), Ptr(s.id, (), False)

    def array(self, elem_ctype, length, name, sym=True):
        t = self.eng.ctype(elem_ctype)
        a = self.eng.new_array(t, length, name, force_sym=sym)
        self.st.mem.add(a)
        self.inputs.append((name, elem_ctype + "[]", a))
        return AV(self, a)

    def cell(self, ctype, name, value=None):
        t = self.eng.ctype(ctype)
        c = Cell(t, value if value is not None else self.eng.sym_value(t, name), name)
        self.st.mem.add(c)
        return c, Ptr(c.id, (), False)

    def assume(self, *conds):
        for c in conds:
            self.st.assume(c)

    def enumc(self, name):
        return z3.IntVal(self.eng.enum(name))

    # -- execution ---------------------------------------------------------------
    def call(self, fn, *args):
        args = [self.unwrap(a) for a in args]
        tu, f = self.eng.find_function(fn)
        if f is None:
            raise Unsupported("function %s not found in %s" % (fn, [t.relpath for t in self.eng.tus]))
        rec = {"fn": fn, "args": [a.clone() if isinstance(a, StructObj) else a for a in args],
               "pre_mem": self.st.mem.clone(), "ret": None, "ctx": self}
        self.calls.append(rec)
        r = self.eng.exec_function(self.st, tu, f, args)
        rec["ret"] = r
        return self.wrap(r)

    def primary_call(self):
        for rec in self.calls:
            if rec["fn"] == self.task.fn:
                return rec
        return self.calls[0] if self.calls else None

    def prove(self, name, goal, kind="post", **meta):
        ob = self.eng.oblige(self.st, self.task.name + "." + name, goal, kind)
        ob.meta.update(meta)
        return ob

    def prove_all(self, name, goals, **meta):
        for i, g in enumerate(goals):
            self.prove("%s.%d" % (name, i) if not isinstance(g, tuple) else "%s.%s" % (name, g[0]),
                       g if not isinstance(g, tuple) else g[1], **meta)

    def lemma(self, name, hyps, goal, **meta):
        """A lemma over contracts (no code executed): hyps => goal."""
        from .csym import Obligation
        ob = Obligation(self.eng.prefix + self.task.name + "." + name, list(self.st.pc) + list(hyps), goal, "lemma")
        ob.meta.update(meta)
        g = z3.simplify(goal)
        if z3.is_true(g):
            ob.verdict, ob.backend = "proved", "simplify"
        self.eng.obligations.append(ob)
        return ob

    def ground(self, name, ok, detail=""):
        """A ground obligation decided by exact evaluation in the pack (tables, layouts, sets)."""
        from .csym import Obligation
        ob = Obligation(self.eng.prefix + self.task.name + "." + name, [], z3.BoolVal(bool(ok)), "ground")
        ob.verdict = "proved" if ok else "refuted"
        ob.backend = "ground"
        ob.detail = detail
        ob.model = {"detail": detail} if not ok else None
        self.eng.obligations.append(ob)
        return ob

    def loop(self, fn, ordinal, invariant=None, variant=None, unroll=None, havoc_extra=None, mode=None):
        self.eng.loopspecs[(fn, ordinal)] = LoopSpec(invariant, variant, unroll, havoc_extra, mode)

    def loops_of(self, fn):
        """[(ordinal, info)] for the loops of a real function in source order; info = {kind, calls, names, depth, line}
        -- lets a pack attach invariants by structure (callee / variable names) instead of by bare ordinal."""
        tu, f = self.eng.find_function(fn)
        out = []

        def scan(x, acc):
            if isinstance(x, dict):
                k = x.get("kind")
                if k == "CallExpr":
                    y = x["inner"][0]
                    while isinstance(y, dict) and y.get("kind") in ("ImplicitCastExpr", "ParenExpr"):
                        y = y["inner"][0]
                    if isinstance(y, dict) and y.get("kind") == "DeclRefExpr":
                        acc["calls"].add(y["referencedDecl"]["name"])
                if k == "DeclRefExpr":
                    acc["names"].add(x["referencedDecl"].get("name"))
                if k == "VarDecl":
                    acc["names"].add(x.get("name"))
                for c in x.get("inner", ()):
                    scan(c, acc)

        def walk(x, depth):
            if isinstance(x, dict):
                if x.get("kind") in ("ForStmt", "WhileStmt", "DoStmt"):
                    acc = {"kind": x["kind"], "calls": set(), "names": set(), "depth": depth, "line": x.get("_line")}
                    scan(x, acc)
                    out.append((len(out), acc))
                    depth += 1
                for c in x.get("inner", ()):
                    walk(c, depth)
        walk(f, 0)
        return out

    def loop_where(self, fn, pred, **kw):
        """attach a loop spec to every loop of `fn` whose info satisfies pred(info); returns the ordinals"""
        hits = [o for (o, info) in self.loops_of(fn) if pred(info)]
        if not hits:
            raise Unsupported("no loop of %s matches the structural anchor" % fn)
        for o in hits:
            self.loop(fn, o, **kw)
        return hits

    def contract(self, fn, apply):
        self.eng.contracts[fn] = Contract(fn, apply)

    def local(self, name):
        return self.wrap(self.eng.local(self.st, name))

    def read(self, ptr):
        return self.wrap(self.eng.read(self.st, ptr))

    def fresh(self, name, sort=None):
        return self.eng.fresh(name, sort or z3.RealSort())


class Task:
    def __init__(self, pack, name, fn, func, files=None, timeout=None, order=None, tags=(), replay=None, z3_ms=None,
                 expect_paths=None, polyid_s=None):
        self.pack, self.name, self.fn, self.func = pack, name, fn, func
        self.files = files
        self.timeout = timeout
        self.order = order
        self.tags = tags
        self.replay = replay
        self.z3_ms = z3_ms
        self.polyid_s = polyid_s


class Pack:
    def __init__(self, prop, files, title=""):
        self.prop = prop
        self.files = files
        self.title = title
        self.tasks = []
        self.assumptions = []
        self.trusted = []
        self.not_decided = []
        self.bounded = []       # callables producing bounded stand-in results (thorough tier)

    def task(self, name, fn=None, **kw):
        def deco(f):
            self.tasks.append(Task(self, name, fn, f, **kw))
            return f
        return deco

    def assume(self, text):
        self.assumptions.append(text)

    def trust(self, text):
        self.trusted.append(text)

    def bounded_check(self, name, bound):
        def deco(f):
            self.bounded.append((name, bound, f))
            return f
        return deco


def term_text(t, limit=600):
    try:
        # z3's Python pretty-printer is very slow on big terms (0.1 s each): use the C printer for those
        sx = t.sexpr() if hasattr(t, "sexpr") else None
    except Exception:
        sx = None
    s = sx if (sx is not None and len(sx) > 4000) else str(t)
    s = re.sub(r"\s+", " ", s)
    return s if len(s) <= limit else s[:limit] + " ..."


def _native_isolated(eng, ob, repo):
    """Run the native replay in a forked child: a counter-model may drive the real code into a crash
    (NULL back-pointer, wild index); that must not take the discharging process down with it."""
    from . import native as nat
    r, w = os.pipe()
    pid = os.fork()
    if pid == 0:
        os.close(r)
        try:
            try:
                confirmed, info = nat.replay_in_worker(eng, ob, repo)
                out = {"confirmed": confirmed, "info": info}
            except Exception as ex:
                out = {"confirmed": None, "info": {"error": "%s: %s" % (type(ex).__name__, ex),
                                                   "trace": traceback.format_exc()[-1200:]}}
            data = json.dumps(out, default=str).encode()
            off = 0
            while off < len(data):
                off += os.write(w, data[off:off + 65536])
        finally:
            os._exit(0)
    os.close(w)
    chunks = []
    import select, signal as _sig
    deadline = time.time() + float(os.environ.get("VERIF_NATIVE_TIMEOUT", "60"))
    timed_out = False
    while True:
        left = deadline - time.time()
        if left <= 0:
            timed_out = True
            break
        rl, _, _ = select.select([r], [], [], left)
        if not rl:
            timed_out = True
            break
        c = os.read(r, 65536)
        if not c:
            break
        chunks.append(c)
    os.close(r)
    if timed_out:
        try:
            os.kill(pid, _sig.SIGKILL)
        except OSError:
            pass
    _pid, status = os.waitpid(pid, 0)
    if timed_out:
        return {"confirmed": None, "info": {"error": "native replay timed out (the counter-model drives the native code into a long loop "
                                                     "or the library build took too long)"}}
    if not chunks:
        return {"confirmed": None, "info": {"error": "native replay process died (wait status %d): the counter-model drives "
                                                     "the native code into a crash or the replay harness cannot build the input" % status}}
    return json.loads(b"".join(chunks).decode())


_FAILS = {}


_SECOND = {}


def _discharge_one(eng, ob, budget, repo):
    if ob.kind == "ground" and ob.backend == "ground" and ob.verdict in ("proved", "refuted"):
        # decided by exact evaluation in the pack: keep verdict and the detail (names the offending member/writer)
        return {"verdict": ob.verdict, "backend": ob.backend, "time": ob.time, "detail": ob.detail, "model": ob.model,
                "native": None}
    fails = _FAILS.get(id(eng), 0)
    if fails >= 6:
        # this task already has several failing obligations: do not spend the full budget on each further one
        budget = dict(budget)
        budget.update(z3_ms=min(budget.get("z3_ms", 20000), 3000), polyid_s=min(budget.get("polyid_s", 60), 8), cvc5_s=0)
    backends.discharge(ob, budget)
    if ob.verdict != "proved":
        _FAILS[id(eng)] = fails + 1
    elif budget.get("second_opinion") and ob.backend == "z3" and ob.time >= budget.get("second_opinion_min_s", 0.05) \
            and _SECOND.get(id(eng), 0) < budget.get("second_opinion_per_task", 25):
        # thorough tier: an independent solver looks at a sample of the obligations z3 needed real work for.  cvc5 saying
        # `sat` on a formula z3 called `unsat` is a solver disagreement: reported (verdict undecided), never hidden
        _SECOND[id(eng)] = _SECOND.get(id(eng), 0) + 1
        try:
            v2, dt2, info2 = backends.cvc5_prove(ob, budget.get("second_opinion_s", 10))
        except Exception as ex:
            v2, dt2, info2 = "undecided", 0, "cvc5 error %s" % ex
        ob.meta["second_opinion"] = info2 if v2 != "proved" else "cvc5 agrees"
        if "cvc5 sat" in str(info2):
            ob.verdict, ob.detail = "undecided", "solver disagreement: z3 unsat, " + str(info2)
    native = None
    if fails >= 3:
        pass
    elif ob.verdict == "refuted" and ob.meta.get("z3model") is not None:
        ctx = ob.meta.get("ctx")
        rec = ctx.primary_call() if ctx is not None else None
        if rec is not None:
            rec = dict(rec)
            rec["post_mem"] = ctx.st.mem
            ob.meta["callrec"] = rec
            try:
                native = _native_isolated(eng, ob, repo)
            except Exception as ex:
                native = {"confirmed": None, "info": {"error": "%s: %s" % (type(ex).__name__, ex),
                                                      "trace": traceback.format_exc()[-1200:]}}
    return {"verdict": ob.verdict, "backend": ob.backend, "time": ob.time, "detail": ob.detail, "model": ob.model,
            "native": native, "second": ob.meta.get("second_opinion")}


def discharge_all(eng, obs, budget, repo, par=4):
    """Discharge obligations; the non-trivial ones in up to `par` forked children (results by pipe)."""
    todo = [i for i, ob in enumerate(obs) if ob.verdict != "proved"]
    if len(todo) <= 3 or par <= 1:
        for i in todo:
            r = _discharge_one(eng, obs[i], budget, repo)
            obs[i].meta["native"] = r["native"]
            obs[i].meta["second_opinion"] = r.get("second")
        return
    k = min(par, len(todo))
    kids = []
    for j in range(k):
        r, w = os.pipe()
        pid = os.fork()
        if pid == 0:
            os.close(r)
            out = {}
            try:
                for i in todo[j::k]:
                    try:
                        out[i] = _discharge_one(eng, obs[i], budget, repo)
                    except Exception as ex:
                        out[i] = {"verdict": "undecided", "backend": None, "time": 0, "detail": "discharge error %s" % ex,
                                  "model": None, "native": None}
                data = json.dumps(out, default=str).encode()
                off = 0
                while off < len(data):
                    off += os.write(w, data[off:off + 65536])
            finally:
                os._exit(0)
        os.close(w)
        kids.append((pid, r))
    for pid, r in kids:
        chunks = []
        while True:
            c = os.read(r, 65536)
            if not c:
                break
            chunks.append(c)
        os.close(r)
        os.waitpid(pid, 0)
        try:
            out = json.loads(b"".join(chunks).decode() or "{}")
        except Exception:
            out = {}
        for si, d in out.items():
            ob = obs[int(si)]
            ob.verdict, ob.backend, ob.time, ob.detail, ob.model = d["verdict"], d["backend"], d["time"], d["detail"], d["model"]
            ob.meta["native"] = d["native"]
            ob.meta["second_opinion"] = d.get("second")
    for i in todo:
        if obs[i].verdict is None:
            obs[i].verdict = "undecided"
            obs[i].detail = "discharge child died"


def run_task(task, repo=None, budget=None, engine_setup=None):
    """Run one task in the current process: returns a JSON-able result dict."""
    t0 = time.time()
    files = task.files or task.pack.files
    res = {"task": task.name, "fn": task.fn, "obligations": [], "error": None, "paths": 0, "functions": {}}
    try:
        eng = Sym(files, repo, prefix=task.pack.prop + ".")
        eng.prune_timeout = 500
        if engine_setup:
            engine_setup(eng)

        def body(e):
            ctx = TaskCtx(e, task)
            e.loopspecs = {}
            e.contracts = {}
            task.func(ctx)
            # vacuity guard: remember whether the hypotheses accumulated on this completed path are satisfiable.  A single
            # contradictory path is only an infeasible branch that the (time-limited) pruning did not cut; the contract is
            # vacuous if NO completed path is satisfiable.
            sol = z3.Solver()
            sol.set("timeout", 3000)
            for h in ctx.st.pc:
                sol.add(h)
            covers.append(sol.check() != z3.unsat)
        covers = []
        res["paths"] = eng.explore(body)
        if covers and not any(covers):
            from .csym import Obligation
            ob = Obligation(eng.prefix + task.name + ".cover.some_path_has_satisfiable_hypotheses", [], z3.BoolVal(False), "cover")
            ob.verdict, ob.backend = "refuted", "z3"
            ob.detail = "the hypotheses of every completed path are contradictory (vacuous contract)"
            eng.obligations.append(ob)
        b = dict(budget or {})
        if task.order:
            b["order"] = task.order
        if task.z3_ms:
            b["z3_ms"] = task.z3_ms * (b.get("scale", 1))
        if task.polyid_s:
            b["polyid_s"] = task.polyid_s * (b.get("scale", 1))
        discharge_all(eng, eng.obligations, b, repo or cfront.REPO, par=int(os.environ.get("VERIF_OBL_PAR", "4")))
        for ob in eng.obligations:
            res["obligations"].append({
                "name": ob.name, "verdict": ob.verdict, "backend": ob.backend, "time": round(ob.time, 4),
                "kind": ob.kind, "line": ob.where, "detail": ob.detail[:500], "model": ob.model,
                "goal": term_text(ob.goal), "nhyps": len(ob.hyps), "native": ob.meta.get("native"),
                "second_opinion": ob.meta.get("second_opinion"),
            })
        res["functions"] = {k: list(v) for k, v in eng.functions_seen.items()}
        if task.fn and task.fn not in res["functions"]:
            tu, f = eng.find_function(task.fn)
            if f is not None:
                res["functions"][task.fn] = [f.get("_relfile"), f.get("_line")]
    except (Unsupported, NeedsInvariant) as ex:
        res["error"] = "UNSUPPORTED: %s" % ex
        res["trace"] = traceback.format_exc()[-1500:]
    except Exception as ex:
        res["error"] = "CRASH: %s: %s" % (type(ex).__name__, ex)
        res["trace"] = traceback.format_exc()[-3000:]
    res["wall"] = round(time.time() - t0, 3)
    return res
