"""cfront -- C front end: the typed clang AST of the real sources, re-read on every run.

`TU(path)` runs  clang -std=c99 <flags of /repo/setup.py> -fsyntax-only -Xclang -ast-dump=json
on the real file, keeps the declarations that come from /repo (system headers dropped) and
indexes functions / records / enums / typedefs / globals.  A content-addressed cache
(sha256 of the preprocessed translation unit) avoids re-parsing an unchanged file inside
one run and between runs; a changed source always produces a new AST.

What the extraction drops is stated in DESIGN.md 2.1 (pragmas, code under inactive #ifdef,
qualifiers).  Nothing is hand-copied.
"""
import os, sys, json, re, hashlib, pickle, subprocess, gzip
from fractions import Fraction

REPO = os.environ.get("VERIF_REPO", "/repo")
CACHE = os.environ.get("VERIF_CACHE", os.path.join(os.path.dirname(os.path.dirname(os.path.abspath(__file__))), ".cache"))


def compile_flags(repo=None):
    """-D flags that setup.py passes on linux (parsed from the real setup.py)."""
    repo = repo or REPO
    txt = open(os.path.join(repo, "setup.py")).read()
    flags = ["-std=c99", "-DGITHASH=verif"]
    m = re.search(r"else:\s*\n\s*extra_compile_args=\[([^\]]*)\]", txt)
    src = m.group(1) if m else "'-DLIBREBOUND','-D_GNU_SOURCE','-DSERVER'"
    for f in re.findall(r"'(-D[A-Za-z_0-9=]+)'", src):
        if f not in flags:
            flags.append(f)
    return flags


# ----------------------------------------------------------------------------- types
class CType:
    __slots__ = ("kind", "name", "to", "n", "signed", "bits", "params")

    def __init__(self, kind, name=None, to=None, n=None, signed=True, bits=32, params=None):
        self.kind = kind      # int, float, ptr, struct, union, array, func, void, enum
        self.name = name
        self.to = to
        self.n = n
        self.signed = signed
        self.bits = bits
        self.params = params

    def __repr__(self):
        if self.kind == "ptr":
            return "%r*" % (self.to,)
        if self.kind == "array":
            return "%r[%s]" % (self.to, self.n)
        if self.kind in ("struct", "union", "enum"):
            return "%s %s" % (self.kind, self.name)
        if self.kind == "int":
            return "%sint%d" % ("" if self.signed else "u", self.bits)
        return self.kind if self.kind != "float" else "double" if self.bits == 64 else "float%d" % self.bits

    def is_scalar(self):
        return self.kind in ("int", "float", "enum")


_INT_TYPES = {
    "int": (True, 32), "signed int": (True, 32), "unsigned int": (False, 32), "unsigned": (False, 32),
    "long": (True, 64), "unsigned long": (False, 64), "long long": (True, 64), "unsigned long long": (False, 64),
    "short": (True, 16), "unsigned short": (False, 16), "char": (True, 8), "signed char": (True, 8),
    "unsigned char": (False, 8), "_Bool": (False, 1), "size_t": (False, 64), "ssize_t": (True, 64),
    "uint32_t": (False, 32), "int32_t": (True, 32), "uint64_t": (False, 64), "int64_t": (True, 64),
    "uint8_t": (False, 8), "int8_t": (True, 8), "uint16_t": (False, 16), "int16_t": (True, 16),
    "__int128": (True, 128), "unsigned __int128": (False, 128), "off_t": (True, 64), "long int": (True, 64),
    "unsigned long int": (False, 64), "__off_t": (True, 64), "ptrdiff_t": (True, 64), "intptr_t": (True, 64),
    "uintptr_t": (False, 64), "time_t": (True, 64), "__uint32_t": (False, 32), "__uint64_t": (False, 64),
    "__int64_t": (True, 64), "__int32_t": (True, 32), "reb_REB_INTEGRATOR": (True, 32),
}


def parse_type(q, typedefs=None):
    """Parse a clang qualType string into a CType (qualifiers dropped)."""
    q = q.strip()
    q = re.sub(r"\b(const|volatile|restrict|__restrict)\b", "", q).strip()
    q = re.sub(r"\s+", " ", q)
    q = q.replace("* *", "**").replace(" *", "*")
    if q.startswith("enum "):
        return CType("enum", name=q[5:].strip(), bits=32)
    if (q.startswith("struct ") or q.startswith("union ")) and "(unnamed" in q and not q.endswith("*") and not q.endswith("]"):
        return CType(q.split(" ")[0], name=q.split(" ", 1)[1].strip())
    # function pointer / function types
    m = re.match(r"^(.*?)\(\*+\)\s*\((.*)\)$", q)
    if m:
        return CType("ptr", to=CType("func", name=q))
    if q.endswith(")") and "(" in q and "[" not in q.split("(")[0]:
        return CType("func", name=q)
    m = re.match(r"^(.*?)\(\*\)\[(\d+)\]$", q)   # pointer to array
    if m:
        return CType("ptr", to=CType("array", to=parse_type(m.group(1), typedefs), n=int(m.group(2))))
    m = re.match(r"^(.*?)((?:\[\d*\])+)$", q)
    if m:
        base = parse_type(m.group(1), typedefs)
        dims = re.findall(r"\[(\d*)\]", m.group(2))
        t = base
        for d in reversed(dims):
            t = CType("array", to=t, n=int(d) if d else None)
        return t
    if q.endswith("*"):
        return CType("ptr", to=parse_type(q[:-1], typedefs))
    if q.startswith("struct "):
        return CType("struct", name=q[7:].strip())
    if q.startswith("union "):
        return CType("union", name=q[6:].strip())
    if q.startswith("enum "):
        return CType("enum", name=q[5:].strip(), bits=32)
    if q in ("double",):
        return CType("float", bits=64)
    if q in ("float",):
        return CType("float", bits=32)
    if q == "long double":
        return CType("float", bits=80)
    if q == "void":
        return CType("void")
    if q in _INT_TYPES:
        s, b = _INT_TYPES[q]
        return CType("int", signed=s, bits=b, name=q)
    if typedefs and q in typedefs:
        return parse_type(typedefs[q], typedefs)
    if q in ("FILE", "va_list", "__builtin_va_list", "pthread_mutex_t", "pthread_t", "struct __va_list_tag"):
        return CType("struct", name=q)
    return CType("struct", name=q)  # opaque


# ----------------------------------------------------------------------------- AST loading
def _annotate(node, cur):
    """Propagate file/line (clang delta-encodes them) in document order."""
    if not isinstance(node, dict):
        return
    for key in ("loc",):
        loc = node.get(key)
        if isinstance(loc, dict):
            l = loc.get("expansionLoc", loc)
            if "file" in l:
                cur["file"] = l["file"]
            if "line" in l:
                cur["line"] = l["line"]
    rng = node.get("range")
    if isinstance(rng, dict):
        b = rng.get("begin", {})
        b = b.get("expansionLoc", b)
        if "file" in b:
            cur["file"] = b["file"]
        if "line" in b:
            cur["line"] = b["line"]
        node["_line"] = cur["line"]
        node["_file"] = cur["file"]
    for c in node.get("inner", ()):
        _annotate(c, cur)
    if isinstance(rng, dict):
        e = rng.get("end", {})
        e = e.get("expansionLoc", e)
        if "file" in e:
            cur["file"] = e["file"]
        if "line" in e:
            cur["line"] = e["line"]
        node["_endline"] = cur["line"]


_STRIP = ("range", "loc", "isUsed", "isReferenced", "mangledName", "isImplicit")


def _strip(node):
    if isinstance(node, dict):
        for k in _STRIP:
            node.pop(k, None)
        inner = node.get("inner")
        if inner:
            node["inner"] = [c for c in inner if isinstance(c, dict) and not str(c.get("kind", "")).endswith("Comment")]
            for c in node["inner"]:
                _strip(c)


class TU:
    """One translation unit of the real repository."""

    def __init__(self, relpath, repo=None):
        self.repo = repo or REPO
        self.relpath = relpath
        self.path = os.path.join(self.repo, relpath)
        self.flags = compile_flags(self.repo)
        data = self._load()
        self.functions = data["functions"]      # name -> FunctionDecl node with body
        self.protos = data["protos"]            # name -> FunctionDecl node (no body)
        self.records = data["records"]          # name -> [(field, qualType), ...]
        self.record_kinds = data["record_kinds"]
        self.enums = data["enums"]              # constant name -> int
        self.enum_sets = data["enum_sets"]      # enum name -> {const: value}
        self.typedefs = data["typedefs"]        # name -> qualType
        self.globals = data["globals"]          # name -> VarDecl
        self.sha = data["sha"]
        self._typecache = {}

    # -- loading ---------------------------------------------------------------
    def _preprocessed_sha(self):
        cmd = ["clang"] + self.flags + ["-I" + os.path.join(self.repo, "src"), "-E", self.path]
        out = subprocess.run(cmd, capture_output=True, check=True).stdout
        # drop line markers' absolute paths so a scratch copy hashes like the original only if equal text
        return hashlib.sha256(out).hexdigest()

    def _load(self):
        sha = self._preprocessed_sha()
        os.makedirs(CACHE, exist_ok=True)
        cpath = os.path.join(CACHE, "ast2-%s.pkl.gz" % sha[:32])   # ast2: nested enums collected
        if os.path.exists(cpath):
            try:
                with gzip.open(cpath, "rb") as f:
                    return pickle.load(f)
            except Exception:
                pass
        cmd = ["clang"] + self.flags + ["-I" + os.path.join(self.repo, "src"), "-fsyntax-only",
                                         "-Xclang", "-ast-dump=json", self.path]
        p = subprocess.run(cmd, capture_output=True)
        if p.returncode != 0:
            raise RuntimeError("clang failed on %s:\n%s" % (self.path, p.stderr.decode()[-2000:]))
        ast = json.loads(p.stdout)
        cur = {"file": None, "line": 0}
        funcs, protos, records, enums, enum_sets, typedefs, globs, rkinds = {}, {}, {}, {}, {}, {}, {}, {}
        for n in ast["inner"]:
            _annotate(n, cur)
            k = n.get("kind")
            f = n.get("_file") or cur["file"] or ""
            inrepo = f.startswith(self.repo)
            if k == "TypedefDecl":
                t = n.get("type", {})
                typedefs[n["name"]] = t.get("desugaredQualType", t.get("qualType"))
            elif k == "RecordDecl" and n.get("completeDefinition"):
                fields = []
                for c in n.get("inner", ()):
                    if c.get("kind") == "FieldDecl":
                        t = c["type"]
                        fields.append((c.get("name"), t.get("desugaredQualType", t["qualType"]), c.get("id")))
                if n.get("name"):
                    records[n["name"]] = fields
                    rkinds[n["name"]] = n.get("tagUsed", "struct")
                records["#" + n["id"]] = fields
                # enums declared inside a record (struct reb_simulation { enum {...} integrator; }) have file scope in C
                _nested_enums(n, enums, enum_sets)
            elif k == "EnumDecl":
                es = {}
                nxt = 0
                for c in n.get("inner", ()):
                    if c.get("kind") == "EnumConstantDecl":
                        v = None
                        for cc in c.get("inner", ()):
                            v = _const_int(cc, enums)
                        if v is None:
                            v = nxt
                        es[c["name"]] = v
                        enums[c["name"]] = v
                        nxt = v + 1
                if n.get("name"):
                    enum_sets[n["name"]] = es
            elif k == "FunctionDecl" and inrepo:
                has_body = any(c.get("kind") == "CompoundStmt" for c in n.get("inner", ()))
                _strip(n)
                n["_relfile"] = os.path.relpath(f, self.repo)
                if has_body:
                    funcs[n["name"]] = n
                else:
                    protos.setdefault(n["name"], n)
            elif k == "FunctionDecl":
                _strip(n)
                protos.setdefault(n["name"], n)
            elif k == "VarDecl" and inrepo:
                _strip(n)
                n["_relfile"] = os.path.relpath(f, self.repo)
                if n["name"] not in globs or n.get("inner"):
                    globs[n["name"]] = n
        data = dict(functions=funcs, protos=protos, records=records, record_kinds=rkinds, enums=enums,
                    enum_sets=enum_sets, typedefs=typedefs, globals=globs, sha=sha)
        tmp = cpath + ".%d.tmp" % os.getpid()
        with gzip.open(tmp, "wb", compresslevel=3) as f:
            pickle.dump(data, f, protocol=pickle.HIGHEST_PROTOCOL)
        os.replace(tmp, cpath)
        return data

    # -- queries ---------------------------------------------------------------
    def ctype(self, q):
        t = self._typecache.get(q)
        if t is None:
            t = self._typecache[q] = parse_type(q, self.typedefs)
        return t

    def node_type(self, node):
        t = node.get("type", {})
        return self.ctype(t.get("desugaredQualType", t.get("qualType", "int")))

    def fields(self, structname):
        return self.records[structname]

    def function(self, name):
        return self.functions.get(name)

    def params(self, fn):
        return [c for c in fn.get("inner", ()) if c.get("kind") == "ParmVarDecl"]

    def body(self, fn):
        for c in fn.get("inner", ()):
            if c.get("kind") == "CompoundStmt":
                return c
        return None

    def sizeof(self, t):
        return self._size_align(t)[0]

    def _size_align(self, t):
        if t.kind == "int":
            b = max(1, t.bits // 8)
            return b, b
        if t.kind == "enum":
            return 4, 4
        if t.kind == "float":
            return (8, 8) if t.bits == 64 else (4, 4) if t.bits == 32 else (16, 16)
        if t.kind == "ptr":
            return 8, 8
        if t.kind == "array":
            s, a = self._size_align(t.to)
            return s * (t.n or 0), a
        if t.kind in ("struct", "union"):
            if t.name == "pthread_mutex_t":
                return 40, 8
            if t.name == "pthread_t":
                return 8, 8
            fs = self.records.get(t.name)
            if fs is None:
                raise KeyError("sizeof unknown record " + str(t.name))
            off, al = 0, 1
            union = self.record_kinds.get(t.name) == "union"
            for (_n, q, _i) in fs:
                s, a = self._size_align(self.ctype(q))
                al = max(al, a)
                if union:
                    off = max(off, s)
                else:
                    off = (off + a - 1) // a * a + s
            return (off + al - 1) // al * al, al
        raise KeyError("sizeof " + repr(t))

    def offsetof(self, structname, field):
        off = 0
        for (n, q, _i) in self.records[structname]:
            s, a = self._size_align(self.ctype(q))
            off = (off + a - 1) // a * a
            if n == field:
                return off
            off += s
        raise KeyError(field)


def _nested_enums(rec, enums, enum_sets):
    """EnumDecls nested (at any depth) inside a RecordDecl: their constants are ordinary identifiers in C."""
    for c in rec.get("inner", ()):
        if not isinstance(c, dict):
            continue
        if c.get("kind") == "EnumDecl":
            es = {}
            nxt = 0
            for e in c.get("inner", ()):
                if e.get("kind") == "EnumConstantDecl":
                    v = None
                    for cc in e.get("inner", ()):
                        v = _const_int(cc, enums)
                    if v is None:
                        v = nxt
                    es[e["name"]] = v
                    enums.setdefault(e["name"], v)
                    nxt = v + 1
            if c.get("name"):
                enum_sets.setdefault(c["name"], es)
        elif c.get("kind") == "RecordDecl":
            _nested_enums(c, enums, enum_sets)


def _const_int(node, enums):
    k = node.get("kind")
    if k == "ConstantExpr" and "value" in node:
        try:
            return int(node["value"])
        except ValueError:
            return None
    if k == "IntegerLiteral":
        return int(node["value"])
    if k in ("ParenExpr", "ImplicitCastExpr", "CStyleCastExpr"):
        return _const_int(node["inner"][0], enums)
    if k == "UnaryOperator" and node.get("opcode") == "-":
        v = _const_int(node["inner"][0], enums)
        return None if v is None else -v
    if k == "DeclRefExpr":
        return enums.get(node.get("referencedDecl", {}).get("name"))
    if k == "BinaryOperator":
        a = _const_int(node["inner"][0], enums)
        b = _const_int(node["inner"][1], enums)
        if a is None or b is None:
            return None
        op = node["opcode"]
        return {"+": a + b, "-": a - b, "*": a * b, "<<": a << b, "|": a | b, "&": a & b}.get(op)
    return None


_TUS = {}


def tu(relpath, repo=None):
    key = (repo or REPO, relpath)
    if key not in _TUS:
        _TUS[key] = TU(relpath, repo)
    return _TUS[key]


def record_layouts(relpath="src/rebound.c", repo=None):
    """clang's own record layouts (offset/size per member) for every struct of the TU.
    Returns {struct_name: {"size": n, "align": a, "fields": [(offset, type, name, depth)]}}."""
    repo = repo or REPO
    cmd = ["clang"] + compile_flags(repo) + ["-I" + os.path.join(repo, "src"), "-c", "-o", "/dev/null",
                                             "-Xclang", "-fdump-record-layouts", os.path.join(repo, relpath)]
    out = subprocess.run(cmd, capture_output=True, check=True).stdout.decode()
    res = {}
    blocks = out.split("*** Dumping AST Record Layout")
    for b in blocks[1:]:
        lines = b.strip("\n").split("\n")
        m = re.match(r"\s*0 \| (struct|union) (.*)$", lines[0])
        if not m:
            continue
        name = m.group(2).strip()
        fields = []
        for ln in lines[1:]:
            mm = re.match(r"^\s*(\d+)(?::[\d-]+)? \|(\s+)(.*?)\s+(\w+)(\[[\d\]\[]*\])?$", ln)
            if mm and not ln.strip().startswith("|"):
                depth = (len(mm.group(2)) - 3) // 2
                typ = mm.group(3) + (mm.group(5) or "")
                fields.append((int(mm.group(1)), typ.strip(), mm.group(4), depth))
            ms = re.match(r"^\s*\| \[sizeof=(\d+), align=(\d+)", ln)
            if ms:
                res[name] = {"size": int(ms.group(1)), "align": int(ms.group(2)), "fields": fields}
    return res


if __name__ == "__main__":
    t = tu(sys.argv[1])
    print(len(t.functions), "functions", len(t.records), "records", len(t.enums), "enum constants")
    print(sorted(t.functions)[:20])
