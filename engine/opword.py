"""opword -- operator words of splitting schemes, extracted by symbolically executing the real step
functions with the primitive sub-steps registered as trace primitives; free-algebra order conditions.

A word is a list of letters (name, coeff) where coeff is the exact rational multiple of dt (or of dt^k)
passed to the primitive, computed from the real tables by the executor.
"""
from fractions import Fraction
import itertools, math
import z3
from .mem import Ptr, StructObj, ArrObj
from .csym import simp, as_real, Unsupported, LoopSpec


# ------------------------------------------------------------------ extraction
def coeff_of(term, dt):
    """term = c * dt^k  ->  (c as Fraction, k).  Checked by evaluation at dt=1,2,3."""
    term = as_real(term)

    def at(v):
        t = z3.simplify(z3.substitute(term, (dt, z3.RealVal(v))))
        if not z3.is_rational_value(t):
            raise Unsupported("primitive argument is not a polynomial in dt with constant coefficients: %s" % term)
        return Fraction(t.numerator_as_long(), t.denominator_as_long())
    f1, f2, f3 = at(1), at(2), at(3)
    if f1 == 0:
        if f2 == 0 and f3 == 0:
            return Fraction(0), 1
        raise Unsupported("non-monomial argument")
    for k in range(0, 5):
        if f2 == f1 * 2 ** k and f3 == f1 * 3 ** k:
            return f1, k
    raise Unsupported("argument not a monomial in dt: %s" % term)


class Recorder:
    """Registers trace primitives on an engine; collects letters into st.trace."""

    def __init__(self, v, dt, prims, notes=()):
        self.v, self.dt = v, dt
        eng = v.eng
        for fname, (letter, argidx) in prims.items():
            eng.trace_prims[fname] = self._mk(letter, argidx)
        for fname in notes:
            eng.trace_prims[fname] = self._mk("!" + fname, None)

    def _mk(self, letter, argidx):
        dt = self.dt

        def rec(eng, st, args, n):
            if argidx is None:
                st.trace = st.trace + [(letter, None, 0)]
            else:
                try:
                    c, k = coeff_of(args[argidx], dt)
                except Unsupported as ex:
                    # the sub-step length depends on state other than the step size dt: recorded, reported by W.run
                    st.trace = st.trace + [(letter + "?", None, 0)]
                    st.ghost["word_errors"] = st.ghost.get("word_errors", ()) + ("%s(%s)" % (letter, str(args[argidx])[:120]),)
                    return None
                st.trace = st.trace + [(letter, c, k)]
            return None
        return rec


def particle_loop_letter(eng, st, n, cond, inc, body):
    """Custom loop handler: a `for (i=lo; i<N; i++)` loop whose body updates only element i of particle
    arrays by affine combinations of element-i leaves.  Executes the body once for a symbolic i and records
    the letter ('U', updates) with updates = tuple of (target leaf, ((source leaf, coeff, dtpower), ...))
    in program order (statement by statement).  Obligations: writes only at index i."""
    raise Unsupported("particle loop letters: installed per task")


# ------------------------------------------------------------------ free algebra (truncated, exact)
class FreeAlg:
    """Non-commutative polynomials over Q in letters (single characters), truncated by `keep(word)`."""

    def __init__(self, keep):
        self.keep = keep

    def one(self):
        return {"": Fraction(1)}

    def gen(self, g, c=Fraction(1)):
        return {g: Fraction(c)} if self.keep(g) else {}

    def add(self, a, b, cb=Fraction(1)):
        r = dict(a)
        for w, c in b.items():
            v = r.get(w, 0) + c * cb
            if v == 0:
                r.pop(w, None)
            else:
                r[w] = v
        return r

    def scale(self, a, c):
        return {w: v * c for w, v in a.items()} if c != 0 else {}

    def mul(self, a, b):
        r = {}
        keep = self.keep
        for w1, c1 in a.items():
            for w2, c2 in b.items():
                w = w1 + w2
                if keep(w):
                    v = r.get(w, 0) + c1 * c2
                    if v == 0:
                        r.pop(w, None)
                    else:
                        r[w] = v
        return r

    def exp(self, x):
        """exp of an element without constant term"""
        res = self.one()
        term = self.one()
        k = 1
        while True:
            term = self.scale(self.mul(term, x), Fraction(1, k))
            if not term:
                break
            res = self.add(res, term)
            k += 1
            if k > 80:
                break
        return res

    def comm(self, a, b):
        return self.add(self.mul(a, b), self.mul(b, a), Fraction(-1))


def keep_by_order(s, letters_b="B", maxlen=None):
    """keep(word) for a generalised order s=(s1,s2,...): words with j B-letters are kept up to length s_j
    (j=0: always up to max(s)); j beyond len(s) uses the last entry."""
    smax = max(s)

    def keep(w):
        j = sum(1 for ch in w if ch in letters_b)
        if j == 0:
            return len(w) <= smax
        lim = s[j - 1] if j <= len(s) else s[-1]
        return len(w) <= lim
    return keep


def word_product(alg, word, absval=False):
    """Product of exponentials for a word of (generator-polynomial) letters; each item is an algebra
    element x (the exponent).  absval: use |coefficients| (rounding envelope)."""
    res = alg.one()
    for x in word:
        if absval:
            x = {w: abs(c) for w, c in x.items()}
        res = alg.mul(res, alg.exp(x))
    return res


def order_residuals(exponents, target_exponent, s, letters_b="B", envelope=True):
    """Compare prod exp(x_i) with exp(target) on every word allowed by the generalised order s.
    Returns list of (word, residual, envelope) with the first-order rounding envelope of the tabulated
    doubles:  4 * sum over distinct |coefficient| c of |res(c*(1+2^-53)) - res(c)|  (forward differences in
    exact arithmetic).  A table entry that is off by more than a few ulp exceeds the envelope."""
    keep = keep_by_order(s, letters_b)
    alg = FreeAlg(keep)
    got = word_product(alg, exponents)
    want = alg.exp(target_exponent)
    words = sorted(set(got) | set(want), key=lambda x: (len(x), x))
    res = {w: got.get(w, 0) - want.get(w, 0) for w in words}
    env = {w: Fraction(0) for w in words}
    if envelope:
        consts = sorted({abs(c) for x in exponents for c in x.values() if c != 0})
        eps = Fraction(1, 2 ** 53)
        for c0 in consts:
            if c0.denominator & (c0.denominator - 1) == 0 and c0.numerator in (1, 3, 5) and c0.denominator <= 8:
                continue       # exactly representable small dyadic (1/2, 5/8, ...): no rounding
            pert = [{g: (c * (1 + eps) if abs(c) == c0 else c) for g, c in x.items()} for x in exponents]
            got2 = word_product(alg, pert)
            for w in words:
                env[w] += abs(got2.get(w, 0) - got.get(w, 0))
        for w in words:
            env[w] *= 4
    return [(w, res[w], env[w]) for w in words]


def fmt_word(word):
    out = []
    for (l, c, k) in word:
        if c is None:
            out.append(l)
        else:
            out.append("%s(%s%s)" % (l, float(c), "" if k == 1 else "*dt^%d" % k))
    return " ".join(out)
