"""driver -- run the contract packs of one property, decide, write evidence, print VIOLATION lines.

exit 0  every claimed obligation discharged (known findings printed as KNOWN-FINDING lines)
exit 1  >= 1 obligation refuted / no longer discharged and not a listed known finding  (VIOLATION lines)
exit 3  checker problem (unsupported construct, crash, vacuous contract) -- never reported as a violation
"""
import os, sys, json, time, glob, importlib, re, traceback, multiprocessing, hashlib, signal

ROOT = os.path.dirname(os.path.dirname(os.path.abspath(__file__)))
sys.path.insert(0, ROOT)
REPO = os.environ.get("VERIF_REPO", "/repo")


def load_packs(prop):
    packs = []
    for path in sorted(glob.glob(os.path.join(ROOT, "contracts", prop + "_*.py"))):
        modname = "contracts." + os.path.basename(path)[:-3]
        mod = importlib.import_module(modname)
        for p in getattr(mod, "PACKS", []):
            packs.append(p)
    return packs


def _run(args):
    pi, ti, prop, budget = args
    from engine import api
    signal.signal(signal.SIGALRM, lambda *a: (_ for _ in ()).throw(TimeoutError("task timeout")))
    packs = load_packs(prop)
    task = packs[pi].tasks[ti]
    tmo = int((task.timeout or 600) * budget.get("scale", 1))
    signal.alarm(tmo)
    try:
        r = api.run_task(task, REPO, budget)
    except TimeoutError:
        r = {"task": task.name, "fn": task.fn, "obligations": [], "error": "TIMEOUT after %ds" % tmo, "paths": 0,
             "functions": {}, "wall": tmo}
    finally:
        signal.alarm(0)
    r["pack"] = pi
    return r


def load_known():
    p = os.path.join(ROOT, "known_findings.json")
    if not os.path.exists(p):
        return []
    return json.load(open(p)).get("findings", [])



def _child(conn, args):
    try:
        os.setpgrp()                     # own process group: the parent kills the whole group (discharge children included)
        import ctypes
        ctypes.CDLL(None).prctl(1, int(signal.SIGKILL))   # PR_SET_PDEATHSIG: die with the driver
    except Exception:
        pass
    try:
        conn.send(_run(args))
    except BaseException as ex:          # noqa: report instead of dying silently
        try:
            conn.send({"__crash__": "%s: %s" % (type(ex).__name__, ex)})
        except Exception:
            pass
    finally:
        conn.close()


def _kill_group(pr):
    try:
        os.killpg(pr.pid, signal.SIGKILL)
    except (OSError, TypeError):
        pass
    try:
        pr.kill()
    except Exception:
        pass


def run_jobs(jobs, nproc, packs, verbose=None):
    """Run every job in its own process, at most nproc at a time, with a HARD time limit: the soft limit inside the worker
    (SIGALRM) cannot interrupt a long call into z3 / sympy; a worker that overruns it by a margin is killed and reported as
    a task error (which the driver reports as the failed obligation <task>.contract_applies_to_current_code)."""
    pending = list(enumerate(jobs))
    running = {}
    results = [None] * len(jobs)
    while pending or running:
        while pending and len(running) < nproc:
            k, job = pending.pop(0)
            pc, cc = multiprocessing.Pipe(False)
            pr = multiprocessing.Process(target=_child, args=(cc, job))
            pr.start()
            cc.close()
            task = packs[job[0]].tasks[job[1]]
            hard = int((task.timeout or 600) * job[3].get("scale", 1)) * 1.5 + 120
            running[k] = (pr, pc, time.time(), hard, job)
        done = []
        for k, (pr, pc, t0, hard, job) in running.items():
            r = None
            if pc.poll(0):
                try:
                    r = pc.recv()
                except EOFError:
                    r = {"__crash__": "worker died without a result"}
            elif not pr.is_alive():
                r = {"__crash__": "worker died without a result (exit code %s)" % pr.exitcode}
            elif time.time() - t0 > hard:
                _kill_group(pr)
                r = {"__crash__": "HARD TIMEOUT after %ds (worker killed)" % int(hard)}
            if r is not None:
                if "__crash__" in r:
                    task = packs[job[0]].tasks[job[1]]
                    r = {"task": task.name, "fn": task.fn, "obligations": [], "error": "CRASH: " + r["__crash__"], "paths": 0,
                         "functions": {}, "wall": round(time.time() - t0, 1), "pack": job[0]}
                results[k] = r
                done.append(k)
                if verbose:
                    verbose(r)
        for k in done:
            pr, pc = running[k][0], running[k][1]
            pr.join(5)
            _kill_group(pr)               # nothing the worker forked may outlive it
            pc.close()
            del running[k]
        if not done:
            time.sleep(0.05)
    return results


def main(argv=None):
    import argparse
    ap = argparse.ArgumentParser()
    ap.add_argument("prop")
    ap.add_argument("--tier", default=os.environ.get("VERIF_TIER", "quick"))
    ap.add_argument("--replay")
    ap.add_argument("--only")
    ap.add_argument("--jobs", type=int, default=int(os.environ.get("VERIF_JOBS", "16")))
    ap.add_argument("-v", action="store_true")
    a = ap.parse_args(argv)
    prop = a.prop
    tier = a.tier if a.tier in ("quick", "thorough") else "quick"
    seed = int(os.environ.get("VERIF_SEED", "0") or 0)
    t0 = time.time()
    if a.replay:
        from engine import replay
        return replay.rerun(a.replay)
    packs = load_packs(prop)
    if not packs:
        print("no contract pack for", prop)
        return 3
    import tempfile, shutil, atexit
    ndir = tempfile.mkdtemp(prefix="verif-native-")
    os.environ["VERIF_NATIVE_DIR"] = ndir
    atexit.register(shutil.rmtree, ndir, True)
    budget = {"scale": 1 if tier == "quick" else 5, "z3_ms": 20000 if tier == "quick" else 120000,
              "polyid_s": 60 if tier == "quick" else 400, "cvc5_s": 15 if tier == "quick" else 90}
    if tier == "thorough":
        # second opinion by cvc5 on up to 25 of the z3-proved obligations of every task that took z3 >= 50 ms
        budget.update(second_opinion=True, second_opinion_per_task=25, second_opinion_min_s=0.05)
    jobs = []
    for pi, p in enumerate(packs):
        for ti, t in enumerate(p.tasks):
            if a.only and not re.search(a.only, t.name):
                continue
            jobs.append((pi, ti, prop, budget))
    # warm the AST cache once per file (avoids 16 workers parsing the same TU)
    from engine import cfront
    files = sorted({f for p in packs for f in p.files} | {f for p in packs for t in p.tasks for f in (t.files or [])})
    with multiprocessing.Pool(min(a.jobs, max(1, len(files)))) as pool:
        pool.map(_warm, files)
    results = []
    if jobs:
        def show(r):
            print("  task %-60s %3d obl %6.1fs %s" % (r["task"], len(r["obligations"]), r["wall"], r["error"] or ""), flush=True)
        results = run_jobs(jobs, min(a.jobs, len(jobs)), packs, show if a.v else None)
    # second chance for obligations that were neither proved nor refuted (solver timeouts under machine load must not flip a
    # verdict): the tasks concerned are re-run a few at a time with a 5x budget
    retry = [i for i, r in enumerate(results) if any(o["verdict"] == "undecided" for o in r["obligations"]) or
             _is_timeout(r["error"])]
    if retry and not os.environ.get("VERIF_NO_RETRY"):
        b2 = dict(budget)
        b2.update(z3_ms=budget["z3_ms"] * 5, polyid_s=budget["polyid_s"] * 3, cvc5_s=budget["cvc5_s"] * 3, scale=budget.get("scale", 1) * 3)
        name2job = {}
        for j in jobs:
            name2job[(j[0], packs[j[0]].tasks[j[1]].name)] = j
        # a task that ran out of time (normally seconds) is re-run with its own time limit: a hang is not a matter of budget
        b1 = dict(b2, scale=budget.get("scale", 1))
        rjobs = [(name2job[(results[i]["pack"], results[i]["task"])][0], name2job[(results[i]["pack"], results[i]["task"])][1], prop,
                  b1 if _is_timeout(results[i]["error"]) else b2) for i in retry]
        os.environ["VERIF_OBL_PAR"] = "2"
        redo = run_jobs(rjobs, min(4, len(rjobs)), packs)
        for i, r2 in zip(retry, redo):
            before = sum(1 for o in results[i]["obligations"] if o["verdict"] == "undecided")
            after = sum(1 for o in r2["obligations"] if o["verdict"] == "undecided")
            if a.v:
                print("  retry %-55s undecided %d -> %d" % (r2["task"], before, after), flush=True)
            r2["retried"] = True
            results[i] = r2
    results.sort(key=lambda r: (r["pack"], r["task"]))
    return finish(prop, tier, seed, packs, results, t0, a)


def _is_timeout(err):
    """a task that ran out of time (soft limit, hard kill) -- as opposed to one the engine cannot apply to the code any more"""
    e = (err or "")
    return e.startswith("TIMEOUT") or "TimeoutError" in e or "HARD TIMEOUT" in e or "task timeout" in e


def _warm(f):
    from engine import cfront
    try:
        cfront.tu(f, REPO)
    except Exception as ex:
        return str(ex)
    return None


def finish(prop, tier, seed, packs, results, t0, a):
    known = [k for k in load_known() if k.get("property") == prop]
    obls = [o for r in results for o in r["obligations"]]
    errors = [(r["task"], r["error"], r.get("trace", "")) for r in results if r["error"]]
    # bounded stand-ins (thorough tier, or quick if cheap).  Never counted as proved; a failing grid point / witness is a failing
    # pseudo-obligation `<prop>.bounded.<check>[.<witness id>]` that known_findings.json may list like any other
    bounded = []
    if not a.only:
        for p in packs:
            for (name, bound, f) in p.bounded:
                if tier == "thorough" or getattr(f, "quick", False):
                    try:
                        tb = time.time()
                        out = f(tier, seed)
                        out = dict(out or {})
                        out.update({"what": name, "bound": bound, "wall_s": round(time.time() - tb, 2)})
                        bounded.append(out)
                    except Exception as ex:
                        bounded.append({"what": name, "bound": bound, "result": "error: %s" % ex})
    bounded_failing = []
    for b in bounded:
        if b.get("result") == "violation":
            ws = b.get("witnesses") or [{"id": None, "example": b.get("witness")}]
            for w in ws:
                nm = "%s.bounded.%s%s" % (prop, b["what"], ("." + str(w["id"])) if w.get("id") else "")
                bounded_failing.append({"name": nm, "verdict": "refuted", "backend": "bounded",
                                        "detail": json.dumps(w)[:2000], "model": w, "goal": b["what"],
                                        "kind": "bounded", "line": None, "time": b.get("wall_s", 0), "nhyps": 0,
                                        "native_confirmed": True})
    failing = [o for o in obls if o["verdict"] != "proved"] + bounded_failing
    known_hit, violations = [], []
    for o in failing:
        k = None
        for kf in known:
            if kf.get("status") == "known" and re.search(kf["obligation"], o["name"]):
                k = kf
                break
        if k:
            known_hit.append((o, k))
        else:
            violations.append(o)
    # A task the engine cannot complete any more (construct outside the subset, loop nest that no longer matches its
    # contract, local the contract reads has disappeared, time-out) means: the obligations this task discharged on the
    # unchanged tree can no longer be established for the current code.  Reported as the failed obligation
    # `<task>.contract_applies_to_current_code` (never with a failing input); the replay file carries the engine's output.
    # A time-out is NOT a verdict about the code (solver / scheduler behaviour; it was retried once with a larger budget above):
    # the task's obligations were not explored in this run.  It is listed in the evidence and printed, never reported as a violation.
    not_explored = [(t_, e_, tr_) for (t_, e_, tr_) in errors if _is_timeout(e_)]
    errors = [(t_, e_, tr_) for (t_, e_, tr_) in errors if not _is_timeout(e_)]
    for (tname, err, tr) in errors:
        violations.append({"name": "%s.%s.contract_applies_to_current_code" % (prop, tname), "verdict": "undecided",
                           "backend": "engine", "detail": "%s\n%s" % (err, tr[-3000:] if tr else ""), "model": None,
                           "goal": "every obligation of task %s is generated from the current source and discharged" % tname,
                           "kind": "task", "line": None, "time": 0, "nhyps": 0})
    lines = []
    replay_dir = os.path.join(ROOT, "replays", prop)
    by_k = {}
    for (o, k) in known_hit:
        by_k.setdefault(k["what"], []).append(o["name"])
    for what, names in by_k.items():
        uniq = sorted(set(names))
        lines.append("KNOWN-FINDING: property=%s %s [%d failing obligation(s), e.g. %s]" % (prop, what, len(uniq), uniq[0]))
    from engine import replay as rp
    seen_v = set()
    for o in violations:
        if o["name"] in seen_v:
            continue
        seen_v.add(o["name"])
        os.makedirs(replay_dir, exist_ok=True)
        path = os.path.join(replay_dir, re.sub(r"[^A-Za-z0-9_.@#-]", "_", o["name"])[:150] + ".json")
        rep = {"property": prop, "obligation": o["name"], "verdict": o["verdict"], "backend": o["backend"],
               "solver_output": o["detail"], "model": o["model"], "goal": o["goal"], "line": o["line"],
               "rerun": "./vcheck %s --replay %s" % (prop, path)}
        confirmed = True if o.get("native_confirmed") else None
        try:
            if confirmed is None:
                confirmed = rp.try_native(prop, o, rep, REPO)
            if confirmed is None:
                # pack-provided replay for ground/structural obligations
                best = None
                for p_ in packs:
                    for t_ in p_.tasks:
                        if t_.replay and o["name"].startswith(prop + "." + t_.name + "."):
                            if best is None or len(t_.name) > len(best.name):
                                best = t_
                if best is None:
                    for p_ in packs:
                        for t_ in p_.tasks:
                            if t_.replay and t_.fn and t_.fn in o["name"]:
                                best = t_
                if best is not None:
                    confirmed, info = best.replay(o, REPO)
                    rep["native"] = info
        except Exception as ex:
            rep["native_error"] = "%s: %s" % (type(ex).__name__, ex)
        rep["native_confirmed"] = confirmed
        json.dump(rep, open(path, "w"), indent=1, default=str)
        suffix = "" if confirmed else " no-failing-input-found"
        lines.append("VIOLATION property=%s replay=%s%s" % (prop, path, suffix))
    fun = {}
    for r in results:
        fun.update(r.get("functions", {}))
    by_backend = {}
    for o in obls:
        if o["verdict"] == "proved":
            by_backend[o["backend"]] = by_backend.get(o["backend"], 0) + 1
    proved = [o for o in obls if o["verdict"] == "proved"]
    nontrivial = [o for o in proved if o["backend"] != "simplify"]
    samples = []
    seen_kinds = set()
    for o in sorted(nontrivial, key=lambda o: -o["time"])[:4] + nontrivial[:8]:
        if o["name"] in seen_kinds:
            continue
        seen_kinds.add(o["name"])
        samples.append({"obligation": o["name"], "goal": o["goal"][:400], "hypotheses": o["nhyps"], "backend": o["backend"],
                        "time_s": o["time"]})
    assumptions, trusted, notdec = [], [], []
    for p in packs:
        assumptions += p.assumptions
        trusted += p.trusted
        notdec += p.not_decided
    claimed = len(obls) - sum(1 for (o, k) in known_hit if o.get("kind") != "bounded")
    ev = {
        "property_id": prop, "tier": tier, "seed": seed, "level": "proof",
        "coverage": {
            "obligations": claimed,
            "discharged": len(proved),
            "checker_cmd": "./vcheck %s --tier %s" % (prop, tier),
            "trusted_base": sorted(set(trusted)) + ["engine/ (home-built VC generator over clang's AST; see DESIGN.md 3)",
                                                    "z3 %s" % _z3v(), "clang 14 AST/record layouts"],
            "functions_under_contract": sorted("%s (%s:%s)" % (k, v[0], v[1]) for k, v in fun.items()),
            "tasks": len(results),
            "paths_explored": sum(r["paths"] for r in results),
            "by_backend": by_backend,
            "trivial_by_simplification": len(proved) - len(nontrivial),
            "solver_time_s": round(sum(o["time"] for o in obls), 2),
            "second_opinions_cvc5": {"asked": sum(1 for o in obls if o.get("second_opinion")),
                                     "agreed": sum(1 for o in obls if o.get("second_opinion") == "cvc5 agrees"),
                                     "no_answer": sum(1 for o in obls if o.get("second_opinion") and o.get("second_opinion") != "cvc5 agrees" and "cvc5 sat" not in str(o.get("second_opinion"))),
                                     "disagreed": sum(1 for o in obls if "cvc5 sat" in str(o.get("second_opinion")))},
            "known_findings_failing": [o["name"] for (o, k) in known_hit],
            "not_discharged": [{"obligation": o["name"], "verdict": o["verdict"], "detail": o["detail"][:200]} for o in violations],
            "task_errors": [{"task": t, "error": e} for (t, e, _tr) in errors] +
                           [{"task": t, "error": "NOT EXPLORED in this run (time limit, also after one retry with a larger budget): " + e}
                            for (t, e, _tr) in not_explored],
            "bounded_checks": bounded,
            "not_decided": notdec,
            "samples": samples,
            "evaluations": len(obls), "distinct_nontrivial": len({o["name"] for o in nontrivial}),
            "rule": "one evaluation = one generated obligation; non-trivial = needed a solver (not closed by term simplification)",
        },
        "assumptions": sorted(set(assumptions)),
        "wall_s": round(time.time() - t0, 2),
        "violations": len(violations),
    }
    # evidence is only written by complete runs against /repo itself (tools/eval_mutant.sh analyses scratch trees)
    if not a.only and not os.environ.get("VERIF_NO_EVIDENCE"):
        os.makedirs(os.path.join(ROOT, "evidence"), exist_ok=True)
        json.dump(ev, open(os.path.join(ROOT, "evidence", prop + ".json"), "w"), indent=1, default=str)
    for ln in lines:
        print(ln)
    for (t, e, _tr) in not_explored:
        print("NOT-EXPLORED: property=%s task %s ran out of time twice (%s); its obligations are not counted" % (prop, t, e[:80]))
    print("%s: %d obligations, %d discharged, %d known findings, %d not discharged, %d task errors, %.1fs" %
          (prop, len(obls), len(proved), len(known_hit), len(violations), len(errors), time.time() - t0))
    if a.v or errors:
        for (t, e, tr) in errors:
            print("TASK-ERROR %s: %s" % (t, e))
            if a.v:
                print(tr)
    if a.v:
        for o in failing:
            print("  FAIL %s %s %s %s" % (o["name"], o["verdict"], o["detail"][:200], json.dumps(o["model"])[:600]))
    if violations:
        return 1
    if not obls:
        return 3
    return 0


def _z3v():
    import z3
    return z3.get_version_string()


if __name__ == "__main__":
    sys.exit(main())
