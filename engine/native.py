"""native -- replay a counter-model on the natively compiled *current* tree.

The library is compiled from /repo's working tree into a scratch directory (removed at exit of the
driver), the primary call of the task is repeated through ctypes on inputs taken from the solver's model,
the observed outputs are substituted for the symbolic outputs in the failed goal, and the goal is
evaluated in floating point with a relative tolerance.  confirmed = hypotheses hold and goal is false.
"""
import os, sys, math, ctypes, subprocess, tempfile, shutil, glob, json, atexit, fcntl
from fractions import Fraction
import z3
from .mem import Ptr, Opaque, FuncRef, Cell, StructObj, ArrObj
from . import cfront

TOL = 1e-7


# ------------------------------------------------------------------ build
def build_lib(repo):
    """Compile src/*.c of the current tree to a shared object in a scratch dir (shared by the workers
    of one driver run through VERIF_NATIVE_DIR)."""
    d = os.environ.get("VERIF_NATIVE_DIR")
    if not d:
        d = tempfile.mkdtemp(prefix="verif-native-")
        os.environ["VERIF_NATIVE_DIR"] = d
        atexit.register(shutil.rmtree, d, True)
    os.makedirs(d, exist_ok=True)
    so = os.path.join(d, "librebound_verif.so")
    lock = open(os.path.join(d, "lock"), "w")
    fcntl.flock(lock, fcntl.LOCK_EX)
    try:
        if os.path.exists(so):
            return so
        flags = [f for f in cfront.compile_flags(repo) if f != "-std=c99"]
        srcs = [s for s in sorted(glob.glob(os.path.join(repo, "src", "*.c")))
                if os.path.basename(s) not in ("glad.c", "display.c", "communication_mpi.c")]
        objs = []
        procs = []
        for s in srcs:
            o = os.path.join(d, os.path.basename(s)[:-2] + ".o")
            objs.append(o)
            procs.append(subprocess.Popen(["gcc", "-std=c99", "-O1", "-fPIC", "-ffp-contract=off", "-w"] + flags +
                                          ["-I" + os.path.join(repo, "src"), "-c", s, "-o", o],
                                          stdout=subprocess.PIPE, stderr=subprocess.STDOUT))
        for p in procs:
            out, _ = p.communicate()
            if p.returncode != 0:
                raise RuntimeError("native build failed: " + out.decode()[-800:])
        r = subprocess.run(["gcc", "-shared", "-o", so + ".tmp"] + objs + ["-lm", "-lpthread"], capture_output=True)
        if r.returncode != 0:
            raise RuntimeError("native link failed: " + r.stderr.decode()[-800:])
        os.replace(so + ".tmp", so)
        return so
    finally:
        fcntl.flock(lock, fcntl.LOCK_UN)
        lock.close()


# ------------------------------------------------------------------ ctypes mirror generated from the clang records
class CT:
    def __init__(self, eng):
        self.eng = eng
        self.cache = {}

    def of(self, t):
        k = t.kind
        if k == "float":
            return ctypes.c_double if t.bits == 64 else ctypes.c_float
        if k == "enum":
            return ctypes.c_int
        if k == "int":
            m = {(8, True): ctypes.c_int8, (8, False): ctypes.c_uint8, (16, True): ctypes.c_int16, (16, False): ctypes.c_uint16,
                 (32, True): ctypes.c_int32, (32, False): ctypes.c_uint32, (64, True): ctypes.c_int64, (64, False): ctypes.c_uint64,
                 (1, False): ctypes.c_uint8}
            return m[(t.bits, t.signed)]
        if k in ("ptr", "func"):
            return ctypes.c_void_p
        if k == "array":
            return self.of(t.to) * (t.n or 0)
        if k in ("struct", "union"):
            if t.name in self.cache:
                return self.cache[t.name]
            if t.name == "pthread_mutex_t":
                return ctypes.c_char * 40
            fields = [(fn, self.of(self.eng.ctype(q))) for (fn, q, _i) in self.eng.records(t.name)]
            base = ctypes.Union if k == "union" else ctypes.Structure
            cls = type("S_" + t.name.replace(" ", "_").replace(":", "_"), (base,), {"_fields_": fields})
            self.cache[t.name] = cls
            return cls
        raise TypeError("ctypes of %r" % (t,))


# ------------------------------------------------------------------ float evaluation of z3 terms
class FEval:
    def __init__(self, model, subst=None):
        self.m = model
        self.subst = subst or {}     # z3 ast id -> float
        self.cache = {}

    def num(self, v):
        if z3.is_rational_value(v):
            return v.numerator_as_long() / v.denominator_as_long()
        if z3.is_int_value(v):
            return v.as_long()
        if z3.is_algebraic_value(v):
            a = v.approx(20)
            return a.numerator_as_long() / a.denominator_as_long()
        if z3.is_true(v):
            return True
        if z3.is_false(v):
            return False
        raise ValueError("not a value: %s" % v)

    def ev(self, e):
        key = e.get_id()
        if key in self.subst:
            return self.subst[key]
        if key in self.cache:
            return self.cache[key]
        r = self._ev(e)
        self.cache[key] = r
        return r

    def _ev(self, e):
        if z3.is_rational_value(e) or z3.is_int_value(e) or z3.is_algebraic_value(e) or z3.is_true(e) or z3.is_false(e):
            return self.num(e)
        if z3.is_quantifier(e):
            return True      # not evaluated (treated as satisfied)
        k = e.decl().kind()
        ch = e.children()
        if k == z3.Z3_OP_UNINTERPRETED:
            name = e.decl().name()
            if not ch:
                return self.num(self.m.eval(e, model_completion=True))
            args = [self.ev(c) for c in ch]
            f = {"m_sqrt": math.sqrt, "m_sin": math.sin, "m_cos": math.cos, "m_tan": math.tan, "m_acos": math.acos,
                 "m_asin": math.asin, "m_atan": math.atan, "m_exp": math.exp, "m_log": math.log, "m_cbrt": lambda x: math.copysign(abs(x) ** (1 / 3), x),
                 "m_cosh": math.cosh, "m_sinh": math.sinh, "m_tanh": math.tanh, "m_acosh": math.acosh, "m_atan2": math.atan2,
                 "m_hypot": math.hypot, "m_pow": math.pow}.get(name)
            if f is None:
                return self.num(self.m.eval(e, model_completion=True))
            return f(*args)
        if k == z3.Z3_OP_SELECT:
            return self.num(self.m.eval(e, model_completion=True))
        a = [self.ev(c) for c in ch]
        if k == z3.Z3_OP_ADD:
            return sum(a)
        if k == z3.Z3_OP_SUB:
            r = a[0]
            for x in a[1:]:
                r -= x
            return r
        if k == z3.Z3_OP_MUL:
            r = 1
            for x in a:
                r *= x
            return r
        if k == z3.Z3_OP_UMINUS:
            return -a[0]
        if k == z3.Z3_OP_DIV:
            return a[0] / a[1] if a[1] != 0 else float("nan")
        if k == z3.Z3_OP_IDIV:
            return a[0] // a[1] if a[1] != 0 else 0
        if k == z3.Z3_OP_MOD:
            return a[0] % a[1] if a[1] != 0 else 0
        if k == z3.Z3_OP_POWER:
            return a[0] ** a[1]
        if k == z3.Z3_OP_TO_REAL:
            return a[0]
        if k == z3.Z3_OP_TO_INT:
            return math.floor(a[0])
        if k == z3.Z3_OP_ITE:
            return a[1] if a[0] else a[2]
        if k == z3.Z3_OP_AND:
            return all(a)
        if k == z3.Z3_OP_OR:
            return any(a)
        if k == z3.Z3_OP_NOT:
            return not a[0]
        if k == z3.Z3_OP_IMPLIES:
            return (not a[0]) or a[1]
        if k == z3.Z3_OP_EQ:
            return self.close(a[0], a[1])
        if k == z3.Z3_OP_DISTINCT:
            return not self.close(a[0], a[1])
        if k == z3.Z3_OP_LE:
            return a[0] <= a[1] or self.close(a[0], a[1])
        if k == z3.Z3_OP_GE:
            return a[0] >= a[1] or self.close(a[0], a[1])
        if k == z3.Z3_OP_LT:
            return a[0] < a[1]
        if k == z3.Z3_OP_GT:
            return a[0] > a[1]
        raise ValueError("feval: operator %s" % e.decl().name())

    @staticmethod
    def close(x, y):
        if isinstance(x, bool) or isinstance(y, bool):
            return bool(x) == bool(y)
        if isinstance(x, float) and (math.isnan(x) or math.isinf(x)) or isinstance(y, float) and (math.isnan(y) or math.isinf(y)):
            return False
        return abs(x - y) <= TOL * max(1.0, abs(x), abs(y))


# ------------------------------------------------------------------ generic replay of the primary call
def replay_in_worker(eng, ob, repo):
    """Called in the task worker for a refuted obligation that carries a model and a call record."""
    rec = ob.meta.get("callrec")
    m = ob.meta.get("z3model")
    if rec is None or m is None:
        return None, {"reason": "no call record / model for this obligation"}
    so = build_lib(repo)
    lib = ctypes.CDLL(so)
    ct = CT(eng)
    fe = FEval(m)
    info = {"call": rec["fn"], "lib": so, "inputs": {}, "observed": {}}
    keep = []

    def val(term):
        return fe.ev(term)

    def fill_struct(cobj, sobj, pre_mem, prefix):
        for (fname, q, _i) in eng.records(sobj.ctype.name):
            if fname not in sobj.fields:
                continue
            v = sobj.fields[fname]
            ft = eng.ctype(q)
            if z3.is_expr(v) and ft.kind in ("float", "int", "enum"):
                x = val(v)
                setattr(cobj, fname, float(x) if ft.kind == "float" else int(x))
                info["inputs"][prefix + fname] = x
            elif isinstance(v, StructObj):
                fill_struct(getattr(cobj, fname), v, pre_mem, prefix + fname + ".")
            elif isinstance(v, ArrObj) and v.mode == "list":
                arr = getattr(cobj, fname)
                for i, it in enumerate(v.items):
                    if z3.is_expr(it):
                        arr[i] = float(val(it)) if v.elem.kind == "float" else int(val(it))
                    elif isinstance(it, StructObj):
                        fill_struct(arr[i], it, pre_mem, "%s%s[%d]." % (prefix, fname, i))
            elif isinstance(v, Ptr) and v.obj is not None:
                target = pre_mem.objs.get(v.obj)
                cptr = materialise(target, pre_mem, prefix + fname)
                setattr(cobj, fname, ctypes.cast(cptr, ctypes.c_void_p))

    arrays = {}

    def materialise(obj, pre_mem, name):
        """object of the symbolic memory -> ctypes object (kept alive); returns pointer"""
        if obj.id in arrays:
            return arrays[obj.id][1]
        if isinstance(obj, ArrObj):
            n = None
            if obj.length is not None:
                try:
                    n = int(val(obj.length) if z3.is_expr(obj.length) else obj.length)
                except Exception:
                    n = None
            if n is None:
                n = rec.get("array_len", 8)
                nterm = rec.get("array_len_term")
                if nterm is not None:
                    n = max(1, int(val(nterm)))
            n = max(1, min(n, 4096))
            cty = ct.of(obj.elem) * n
            carr = cty()
            if obj.mode == "list":
                for i, it in enumerate(obj.items[:n]):
                    if z3.is_expr(it):
                        carr[i] = float(val(it)) if obj.elem.kind == "float" else int(val(it))
                    elif isinstance(it, StructObj):
                        fill_struct(carr[i], it, pre_mem, "%s[%d]." % (name, i))
            else:
                for leaf, lt in obj.leaf_types.items():
                    if lt.kind not in ("float", "int", "enum"):
                        continue
                    arr = obj.leaves.get(leaf)
                    if arr is None:
                        arr = eng._leaf_array(obj, leaf)
                    for i in range(n):
                        x = fe.num(m.eval(z3.Select(arr, z3.IntVal(i)), model_completion=True))
                        tgt = carr[i]
                        if leaf:
                            for p in leaf[:-1]:
                                tgt = getattr(tgt, p) if isinstance(p, str) else tgt[p]
                            last = leaf[-1]
                            if isinstance(last, str):
                                setattr(tgt, last, float(x) if lt.kind == "float" else int(x))
                            else:
                                tgt[last] = float(x) if lt.kind == "float" else int(x)
                        else:
                            carr[i] = float(x) if lt.kind == "float" else int(x)
                        info["inputs"]["%s[%d].%s" % (name, i, ".".join(map(str, leaf)))] = x
            keep.append(carr)
            arrays[obj.id] = (carr, ctypes.cast(carr, ctypes.c_void_p), n)
            return arrays[obj.id][1]
        if isinstance(obj, StructObj):
            cobj = ct.of(obj.ctype)()
            keep.append(cobj)
            arrays[obj.id] = (cobj, ctypes.cast(ctypes.pointer(cobj), ctypes.c_void_p), 1)
            fill_struct(cobj, obj, pre_mem, name + ".")
            return arrays[obj.id][1]
        if isinstance(obj, Cell):
            t = obj.ctype
            cobj = ct.of(t)()
            keep.append(cobj)
            if z3.is_expr(obj.value):
                cobj.value = float(val(obj.value)) if t.kind == "float" else int(val(obj.value))
            arrays[obj.id] = (cobj, ctypes.cast(ctypes.pointer(cobj), ctypes.c_void_p), 1)
            return arrays[obj.id][1]
        raise TypeError("cannot materialise %r" % (obj,))

    pre = rec["pre_mem"]
    tu, fn = eng.find_function(rec["fn"])
    params = tu.params(fn)
    cargs, argtypes = [], []
    for p, a in zip(params, rec["args"]):
        pt = tu.node_type(p)
        cty = ct.of(pt)
        argtypes.append(cty)
        if isinstance(a, StructObj):
            cobj = cty()
            fill_struct(cobj, a, pre, p.get("name", "arg") + ".")
            cargs.append(cobj)
        elif isinstance(a, Ptr):
            if a.obj is None:
                cargs.append(None)
            else:
                cargs.append(materialise(pre.objs[a.obj], pre, p.get("name", "arg")))
        elif z3.is_expr(a):
            x = val(a)
            info["inputs"][p.get("name", "arg")] = x
            cargs.append(float(x) if pt.kind == "float" else int(x))
        else:
            return None, {"reason": "argument %r not replayable" % (a,)}
    f = getattr(lib, rec["fn"])
    rt = parse_ret(tu, fn, ct, eng)
    f.restype = rt
    f.argtypes = argtypes
    ret = f(*cargs)
    # pair symbolic outputs with observed values
    subst = {}

    def pair_struct(sobj, cobj, prefix):
        for (fname, q, _i) in eng.records(sobj.ctype.name):
            if fname not in sobj.fields:
                continue
            v = sobj.fields[fname]
            ft = eng.ctype(q)
            if z3.is_expr(v) and ft.kind in ("float", "int", "enum") and not (z3.is_rational_value(v) or z3.is_int_value(v)):
                x = getattr(cobj, fname)
                subst[v.get_id()] = x
                info["observed"][prefix + fname] = x
            elif isinstance(v, StructObj):
                pair_struct(v, getattr(cobj, fname), prefix + fname + ".")
            elif isinstance(v, ArrObj) and v.mode == "list":
                arr = getattr(cobj, fname)
                for i, it in enumerate(v.items):
                    if z3.is_expr(it) and not (z3.is_rational_value(it) or z3.is_int_value(it)):
                        subst[it.get_id()] = arr[i]

    sret = rec.get("ret")
    if isinstance(sret, StructObj):
        pair_struct(sret, ret, "ret.")
    elif z3.is_expr(sret) and ret is not None:
        subst[sret.get_id()] = ret
        info["observed"]["ret"] = ret
    post = rec.get("post_mem")
    if post is not None:
        for oid, (cobj, _p, n) in arrays.items():
            so_ = post.objs.get(oid)
            if isinstance(so_, StructObj):
                pair_struct(so_, cobj, (so_.name or "obj") + ".")
            elif isinstance(so_, Cell) and z3.is_expr(so_.value):
                subst[so_.value.get_id()] = cobj.value
                info["observed"][so_.name or "cell"] = cobj.value
            elif isinstance(so_, ArrObj) and so_.mode == "sym":
                # Select(post_array, i) terms in the goal are replaced by observed elements
                for leaf, lt in so_.leaf_types.items():
                    if lt.kind not in ("float", "int", "enum") or leaf not in so_.leaves:
                        continue
                    for i in range(n):
                        tgt = cobj[i]
                        for pth in leaf:
                            tgt = getattr(tgt, pth) if isinstance(pth, str) else tgt[pth]
                        t = z3.Select(so_.leaves[leaf], z3.IntVal(i))
                        subst[t.get_id()] = tgt
                        subst[z3.simplify(t).get_id()] = tgt
    fe2 = FEval(m, subst)
    try:
        hyps_ok = all(fe2.ev(h) for h in ob.hyps)
    except Exception as ex:
        hyps_ok = True
        info["hyp_eval_error"] = str(ex)
    nonfinite = [k for k, v in info["observed"].items() if isinstance(v, float) and (math.isnan(v) or math.isinf(v))]
    try:
        goal_val = fe2.ev(ob.goal)
    except Exception as ex:
        info["goal_eval_error"] = str(ex)
        goal_val = None
    info["hypotheses_hold"] = bool(hyps_ok)
    info["goal_on_native_outputs"] = goal_val
    info["nonfinite_outputs"] = nonfinite
    if ob.kind in ("def", "mem"):
        confirmed = bool(nonfinite)
    else:
        confirmed = (goal_val is False) and hyps_ok
    return confirmed, info


def parse_ret(tu, fn, ct, eng):
    q = fn["type"]["qualType"]
    rt = q.split("(")[0].strip()
    t = eng.ctype(rt)
    if t.kind == "void":
        return None
    return ct.of(t)


def replay_obligation(prop, o, rep, repo):
    """Driver side: the worker already attached its native result to the obligation dict."""
    nat = o.get("native")
    if nat is None:
        return None
    rep["native"] = nat.get("info")
    return nat.get("confirmed")


def rerun(rep):
    """./vcheck <id> --replay file : re-run the task that produced the obligation (current tree)."""
    import re
    from . import driver
    name = rep["obligation"]
    prop = rep["property"]
    packs = driver.load_packs(prop)
    best = None
    for p in packs:
        for t in p.tasks:
            if name.startswith(prop + "." + t.name + ".") or t.name in name:
                if best is None or len(t.name) > len(best.name):
                    best = t
    if best is None:
        print("no task found for", name)
        return False
    rc = driver.main([prop, "--only", "^" + re.escape(best.name) + "$", "-v"])
    return rc == 1
