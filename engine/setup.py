"""setup -- verify the tools the checks need are present (offline; nothing is downloaded or built ahead)."""
import shutil, subprocess, sys, json, os


def main():
    ok = True
    info = {}
    for tool in ("clang", "gcc", "/usr/bin/cvc5"):
        p = shutil.which(tool)
        info[tool] = p
        ok &= p is not None
    try:
        import z3, sympy
        info["z3"] = z3.get_version_string()
        info["sympy"] = sympy.__version__
    except Exception as ex:
        ok = False
        info["import_error"] = str(ex)
    info["venv_python"] = os.path.exists("/venv/bin/python")
    print(json.dumps(info))
    return 0 if ok else 1


if __name__ == "__main__":
    sys.exit(main())
