"""replay -- native replay of counter-models on the real code (filled in by engine.native)."""
import json, os, sys


def try_native(prop, o, rep, repo):
    """Return True iff the counter-model is confirmed on the natively compiled current tree."""
    try:
        from . import native
    except ImportError:
        return None
    return native.replay_obligation(prop, o, rep, repo)


def rerun(path):
    rep = json.load(open(path))
    print(json.dumps(rep, indent=1)[:4000])
    from . import native
    ok = native.rerun(rep)
    return 1 if ok else 0
