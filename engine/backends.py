"""backends -- discharge obligations: z3 (primary), polyid (ideal membership via sympy), cvc5 (SMT-LIB export).

Verdicts: proved | refuted (model validated by re-evaluation) | undecided.
"""
import time, os, subprocess, tempfile, signal
from fractions import Fraction
import z3


def _model_dict(m):
    d = {}
    for decl in m.decls():
        try:
            v = m[decl]
            if decl.arity() == 0:
                d[decl.name()] = str(v)
            else:
                d[decl.name()] = str(v)[:400]
        except Exception:
            pass
    return d


def validate_model(ob, m):
    """Re-evaluate hypotheses and goal under the model with completion: hyps true, goal false."""
    try:
        for h in ob.hyps:
            v = m.eval(h, model_completion=True)
            if z3.is_false(v):
                return False
        g = m.eval(ob.goal, model_completion=True)
        return z3.is_false(g)
    except Exception:
        return False


def z3_prove(ob, timeout_ms=20000, rlimit=0, tactic=None):
    t0 = time.time()
    if tactic:
        s = z3.Tactic(tactic).solver()
    else:
        s = z3.Solver()
    s.set("timeout", timeout_ms)
    if rlimit:
        s.set("rlimit", rlimit)
    for h in ob.hyps:
        s.add(h)
    s.add(z3.Not(ob.goal))
    r = s.check()
    dt = time.time() - t0
    if r == z3.unsat:
        return "proved", dt, None
    if r == z3.sat:
        m = s.model()
        return "refuted", dt, m
    return "undecided", dt, s.reason_unknown()


def _term_size(t, cap=2000):
    seen, stack, n = set(), [t], 0
    while stack and n < cap:
        x = stack.pop()
        if x.get_id() in seen:
            continue
        seen.add(x.get_id())
        n += 1
        stack.extend(x.children())
    return n


def _uf_atoms(t):
    out, seen, stack = set(), set(), [t]
    while stack:
        x = stack.pop()
        if x.get_id() in seen:
            continue
        seen.add(x.get_id())
        if z3.is_app(x) and x.num_args() > 0 and x.decl().kind() == z3.Z3_OP_UNINTERPRETED:
            out.add(x.get_id())
        stack.extend(x.children())
    return out


def z3_slices(ob, steps=((0, 1000), (30, 3000), (60, 5000), (120, 8000)), levels=3, level_ms=4000, small=12):
    """Proof search with subsets of the hypotheses.  Sound: an obligation proved from fewer hypotheses is proved.
    Never used to refute (a model of a subset of the hypotheses is not a counter-model).  Helps when many irrelevant
    nonlinear hypotheses drown z3's NRA.
    1. relevance slices: hypotheses that share an uninterpreted application (sqrt(..), acos(..), ...) with the goal,
       transitively to `levels` levels, plus all tiny hypotheses (bounds on inputs);
    2. size slices: hypotheses whose term size is <= K, for growing K."""
    t0 = time.time()
    n = len(ob.hyps)
    sizes = [_term_size(h) for h in ob.hyps]

    def attempt(idx, ms):
        s = z3.Solver()
        s.set("timeout", ms)
        for i in idx:
            s.add(ob.hyps[i])
        s.add(z3.Not(ob.goal))
        return s.check() == z3.unsat
    tried = set()
    hat = [_uf_atoms(h) for h in ob.hyps]
    cur = _uf_atoms(ob.goal)
    sel = set(i for i, sz in enumerate(sizes) if sz <= small)
    for lv in range(levels):
        new = set(i for i, a in enumerate(hat) if a & cur)
        sel |= new
        for i in new:
            cur |= hat[i]
        key = frozenset(sel)
        if key in tried or len(sel) == n:
            continue
        tried.add(key)
        if attempt(sorted(sel), level_ms):
            return "proved", time.time() - t0, "z3-slice:relevance%d(%d/%d hyps)" % (lv + 1, len(sel), n)
    for K, ms in steps:
        idx = [i for i, sz in enumerate(sizes) if sz <= K]
        key = frozenset(idx)
        if key in tried or len(idx) == n:
            continue
        tried.add(key)
        if attempt(idx, ms):
            return "proved", time.time() - t0, "z3-slice:size<=%d(%d/%d hyps)" % (K, len(idx), n)
    return "undecided", time.time() - t0, "no slice proves it"


# ------------------------------------------------------------------ polyid
def _to_sympy(e, env):
    import sympy as sp
    k = e.decl().kind() if z3.is_app(e) else None
    if z3.is_rational_value(e):
        return sp.Rational(e.numerator_as_long(), e.denominator_as_long())
    if z3.is_int_value(e):
        return sp.Integer(e.as_long())
    if z3.is_algebraic_value(e):
        raise ValueError("algebraic")
    if k == z3.Z3_OP_ADD:
        return sp.Add(*[_to_sympy(c, env) for c in e.children()])
    if k == z3.Z3_OP_SUB:
        ch = [_to_sympy(c, env) for c in e.children()]
        r = ch[0]
        for c in ch[1:]:
            r = r - c
        return r
    if k == z3.Z3_OP_MUL:
        return sp.Mul(*[_to_sympy(c, env) for c in e.children()])
    if k == z3.Z3_OP_UMINUS:
        return -_to_sympy(e.arg(0), env)
    if k == z3.Z3_OP_DIV:
        den = e.arg(1)
        if z3.is_rational_value(den) or z3.is_int_value(den):
            return _to_sympy(e.arg(0), env) / _to_sympy(den, env)
        # Rabinowitsch: 1/den becomes a new indeterminate i with the relation den*i - 1 = 0
        # (den != 0 is a separate definedness obligation, checked before this term can be used)
        key = ("inv", den.get_id())
        if key not in env:
            isym = sp.Symbol("i%d" % len(env), real=True)
            env[key] = (isym, den)
            env.setdefault("#rel", []).append(_to_sympy(den, env) * isym - 1)
        return _to_sympy(e.arg(0), env) * env[key][0]
    if k == z3.Z3_OP_TO_REAL:
        return _to_sympy(e.arg(0), env)
    if k == z3.Z3_OP_POWER:
        b, p = e.arg(0), e.arg(1)
        if z3.is_rational_value(p) or z3.is_int_value(p):
            pv = Fraction(p.numerator_as_long(), p.denominator_as_long()) if z3.is_rational_value(p) else Fraction(p.as_long())
            if pv.denominator == 1:
                return _to_sympy(b, env) ** int(pv)
    # opaque: uninterpreted constants/applications, selects, ite
    key = e.get_id()
    if key not in env:
        env[key] = (sp.Symbol("v%d" % len(env), real=True), e)
    return env[key][0]


def polyid_prove(ob, timeout_s=60, use_groebner=True):
    """Goal must be an equality of reals (or conjunction); hypotheses that are real equalities are used
    as generators of an ideal.  Proves numerator(goal) in ideal(numerators(hyps)) by division (sympy.reduced)
    and re-expands the certificate.  Division by zero is excluded by separate definedness obligations."""
    import sympy as sp
    t0 = time.time()
    goals = []

    def split(g):
        if z3.is_and(g):
            for c in g.children():
                split(c)
        else:
            goals.append(g)
    split(z3.simplify(ob.goal, som=False) if False else ob.goal)
    env = {}
    gpolys = []
    for g in goals:
        if not (z3.is_eq(g) and (z3.is_real(g.arg(0)) or z3.is_int(g.arg(0)))):
            return "undecided", time.time() - t0, "goal not an equality"
        try:
            gpolys.append(_to_sympy(g.arg(0), env) - _to_sympy(g.arg(1), env))
        except ValueError as ex:
            return "undecided", time.time() - t0, str(ex)
    hyps = []
    nonneg = []

    def note_sign(h):
        # t >= 0 / t > 0 / 0 <= t / 0 < t with t an opaque atom (sqrt symbol, input variable)
        try:
            k = h.decl().kind()
            if k in (z3.Z3_OP_GE, z3.Z3_OP_GT):
                a, b = h.arg(0), h.arg(1)
            elif k in (z3.Z3_OP_LE, z3.Z3_OP_LT):
                b, a = h.arg(0), h.arg(1)
            else:
                return
            if (z3.is_rational_value(b) or z3.is_int_value(b)) and _to_sympy(b, env) == 0:
                sa = _to_sympy(a, env)
                if sa.is_Symbol and sa not in nonneg:
                    nonneg.append(sa)
        except Exception:
            pass

    def hsplit(h):
        if z3.is_and(h):
            for c in h.children():
                hsplit(c)
        elif z3.is_app(h) and h.decl().kind() in (z3.Z3_OP_GE, z3.Z3_OP_GT, z3.Z3_OP_LE, z3.Z3_OP_LT):
            note_sign(h)
        elif z3.is_eq(h) and (z3.is_real(h.arg(0)) or z3.is_int(h.arg(0))):
            try:
                hyps.append(_to_sympy(h.arg(0), env) - _to_sympy(h.arg(1), env))
            except ValueError:
                pass
    for h in ob.hyps:
        hsplit(h)
    hyps += env.get("#rel", [])
    syms = sorted({s for p in gpolys + hyps for s in p.free_symbols}, key=lambda s: s.name)
    gnums = []
    for p in gpolys:
        num, den = sp.fraction(sp.together(p))
        gnums.append(sp.expand(num))
    if all(g == 0 for g in gnums):
        return "proved", time.time() - t0, "polyid:expand"
    hn = []
    for p in hyps:
        num, den = sp.fraction(sp.together(p))
        num = sp.expand(num)
        if num != 0 and num.free_symbols:
            hn.append(num)
    if not hn:
        return "undecided", time.time() - t0, "non-zero polynomial, no hypotheses"
    # keep only hypotheses sharing symbols (transitively) with the goal
    rel = set().union(*[g.free_symbols for g in gnums])
    changed = True
    used = []
    rest = list(hn)
    while changed:
        changed = False
        for h in list(rest):
            if h.free_symbols & rel:
                rel |= h.free_symbols
                used.append(h)
                rest.remove(h)
                changed = True
    gens = sorted(rel, key=lambda s: s.name)
    if not used:
        return "undecided", time.time() - t0, "no relevant hypotheses"

    def alarm(*a):
        raise TimeoutError()
    old = signal.signal(signal.SIGALRM, alarm)
    signal.alarm(int(timeout_s))
    try:
        ok = True
        how = "polyid:reduced"
        basis = used
        for g in gnums:
            if g == 0:
                continue
            q, r = sp.reduced(g, basis, *gens, order="grevlex")
            if r != 0:
                if not use_groebner:
                    ok = False
                    break
                if how != "polyid:groebner":
                    G = sp.groebner(used, *gens, order="grevlex")
                    basis = list(G.exprs)
                    how = "polyid:groebner"
                q, r = sp.reduced(g, basis, *gens, order="grevlex")
                if r != 0 and nonneg and how != "polyid:groebner+sign":
                    # sign saturation: y >= 0, c >= 0 and y^2 - c^2 in the ideal  ==>  y - c = 0
                    cands = [sp.Integer(1)] + list(nonneg) + [a * b for i, a in enumerate(nonneg) for b in nonneg[i + 1:]]
                    extra = []
                    for y in nonneg:
                        for c in cands:
                            if c == y or y in c.free_symbols:
                                continue
                            _q, rr = sp.reduced(sp.expand(y * y - c * c), basis, *gens, order="grevlex")
                            if rr == 0:
                                extra.append(y - c)
                                break
                    if extra:
                        G = sp.groebner(list(basis) + extra, *gens, order="grevlex")
                        basis = list(G.exprs)
                        how = "polyid:groebner+sign"
                        q, r = sp.reduced(g, basis, *gens, order="grevlex")
                if r != 0:
                    ok = False
                    break
            # certificate re-expansion
            chk = sp.expand(sum(qi * bi for qi, bi in zip(q, basis)) + r - g)
            if chk != 0:
                ok = False
                break
        signal.alarm(0)
        if ok:
            return "proved", time.time() - t0, how
        return "undecided", time.time() - t0, "not in ideal (remainder non-zero)"
    except TimeoutError:
        return "undecided", time.time() - t0, "polyid timeout"
    finally:
        signal.alarm(0)
        signal.signal(signal.SIGALRM, old)


def cvc5_prove(ob, timeout_s=30):
    t0 = time.time()
    s = z3.Solver()
    for h in ob.hyps:
        s.add(h)
    s.add(z3.Not(ob.goal))
    smt = "(set-logic ALL)\n" + s.to_smt2()
    with tempfile.NamedTemporaryFile("w", suffix=".smt2", delete=False) as f:
        f.write(smt)
        path = f.name
    try:
        p = subprocess.run(["/usr/bin/cvc5", "--tlimit=%d" % int(timeout_s * 1000), path], capture_output=True,
                           timeout=timeout_s + 5)
        out = p.stdout.decode().strip().split("\n")[0] if p.stdout else ""
    except Exception as ex:
        out = "error " + str(ex)
    finally:
        os.unlink(path)
    dt = time.time() - t0
    if out == "unsat":
        return "proved", dt, "cvc5"
    if out == "sat":
        return "undecided", dt, "cvc5 sat (model not imported)"
    return "undecided", dt, "cvc5 " + out[:80]


def _nonlinear(e, depth=0):
    stack = [e]
    seen = 0
    while stack and seen < 4000:
        x = stack.pop()
        seen += 1
        if z3.is_app(x):
            k = x.decl().kind()
            if k == z3.Z3_OP_MUL:
                nv = sum(1 for c in x.children() if not (z3.is_rational_value(c) or z3.is_int_value(c)))
                if nv >= 2:
                    return True
            if k in (z3.Z3_OP_DIV, z3.Z3_OP_POWER):
                return True
            stack.extend(x.children())
    return False


def _auto_order(ob):
    g = ob.goal
    parts = g.children() if z3.is_and(g) else [g]
    if all(z3.is_eq(p) and z3.is_real(p.arg(0)) for p in parts) and _nonlinear(g):
        return ("z3quick", "polyid", "z3", "cvc5")
    return ("z3", "cvc5")


def discharge(ob, budget=None):
    """Try back ends in order; fills ob.verdict / backend / time / detail / model."""
    if ob.verdict == "proved":
        return ob
    budget = budget or {}
    tz = budget.get("z3_ms", 15000)
    order = ob.meta.get("order") or budget.get("order") or _auto_order(ob)
    total = 0.0
    notes = []
    for be in order:
        if be == "z3":
            v, dt, info = z3_prove(ob, tz)
            total += dt
            if v == "proved":
                ob.verdict, ob.backend = "proved", "z3"
                break
            if v == "refuted":
                if validate_model(ob, info):
                    ob.verdict, ob.backend, ob.model = "refuted", "z3", _model_dict(info)
                    ob.meta["z3model"] = info
                    break
                notes.append("z3 model failed validation")
            else:
                notes.append("z3: %s" % info)
        elif be == "z3quick":
            v, dt, info = z3_prove(ob, min(tz, 4000))
            total += dt
            if v == "proved":
                ob.verdict, ob.backend = "proved", "z3"
                break
            if v == "refuted" and validate_model(ob, info):
                ob.verdict, ob.backend, ob.model = "refuted", "z3", _model_dict(info)
                ob.meta["z3model"] = info
                break
        elif be == "z3slice":
            v, dt, info = z3_slices(ob)
            total += dt
            if v == "proved":
                ob.verdict, ob.backend = "proved", info
                break
            notes.append("z3slice: %s" % info)
        elif be == "z3nra":
            v, dt, info = z3_prove(ob, tz, tactic="qfnra-nlsat")
            total += dt
            if v == "proved":
                ob.verdict, ob.backend = "proved", "z3-nlsat"
                break
            notes.append("z3nra: %s" % (info if v != "refuted" else "sat"))
        elif be == "polyid":
            v, dt, info = polyid_prove(ob, budget.get("polyid_s", 60))
            total += dt
            if v == "proved":
                ob.verdict, ob.backend = "proved", info
                break
            notes.append("polyid: %s" % info)
        elif be == "cvc5":
            if not budget.get("cvc5_s", 20):
                continue
            v, dt, info = cvc5_prove(ob, budget.get("cvc5_s", 20))
            total += dt
            if v == "proved":
                ob.verdict, ob.backend = "proved", "cvc5"
                break
            notes.append(info)
    else:
        ob.verdict = "undecided"
    if ob.verdict is None:
        ob.verdict = "undecided"
    ob.time = total
    ob.detail = "; ".join(str(x) for x in notes)
    return ob
