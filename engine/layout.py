"""layout -- struct layouts and the binary-field descriptor table as the compiler sees them."""
import os, re, subprocess
from . import cfront


def members(tu, structname, prefix="", base=0, flatten=True):
    """[(path, offset, CType)] of the members of a struct, nested structs flattened (arrays kept whole)."""
    out = []
    off = 0
    for (n, q, _i) in tu.records[structname]:
        t = tu.ctype(q)
        s, a = tu._size_align(t)
        off = (off + a - 1) // a * a
        if t.kind == "struct" and flatten and t.name in tu.records and t.name != "pthread_mutex_t":
            out += members(tu, t.name, prefix + n + ".", base + off, flatten)
        else:
            out.append((prefix + n, base + off, t))
        off += s
    return out


def descriptor_table(repo=None):
    """The real reb_binary_field_descriptor_list as evaluated by the compiler (LLVM IR constant):
    [(type, dtype, name, offset, offset_N, element_size)]"""
    repo = repo or cfront.REPO
    cmd = ["clang"] + cfront.compile_flags(repo) + ["-I" + os.path.join(repo, "src"), "-S", "-emit-llvm", "-O0", "-o", "-",
                                                    os.path.join(repo, "src", "output.c")]
    ir = subprocess.run(cmd, capture_output=True, check=True).stdout.decode("latin-1")
    m = re.search(r"^@reb_binary_field_descriptor_list = [^\n]*$", ir, re.M)
    if not m:
        raise RuntimeError("descriptor table not found in IR")
    line = m.group(0)
    rows = []
    for mm in re.finditer(r"\{ i32 (-?\d+), i32 (-?\d+), (?:\[1024 x i8\] c\"((?:[^\"\\]|\\[0-9A-Fa-f]{2})*)\"|<\{[^}]*\}>|\[1024 x i8\] zeroinitializer), i64 (\d+), i64 (\d+), i64 (\d+) \}", line):
        name = mm.group(3) or ""
        name = name.split("\\00")[0]
        rows.append((int(mm.group(1)) & 0xFFFFFFFF, int(mm.group(2)), name, int(mm.group(4)), int(mm.group(5)), int(mm.group(6))))
    n = re.search(r"constant \[(\d+) x %struct.reb_binary_field_descriptor\]", line)
    if n and int(n.group(1)) != len(rows):
        raise RuntimeError("parsed %d of %s descriptor rows" % (len(rows), n.group(1)))
    return rows
