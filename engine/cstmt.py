"""cstmt -- statements, loops (invariants / unrolling), path exploration by decision replay."""
import itertools, time
import z3
from .mem import Ptr, NULL, Opaque, FuncRef, Cell, StructObj, ArrObj
from .csym import (State, Flow, NORMAL, Unsupported, NeedsInvariant, LoopSpec, is_z3, simp, const_int, as_bool, as_int,
                   as_real, sort_of)
from .cexec import Exec, PathEnd, CannotMerge


class LoopView:
    """What an invariant sees: locals of the enclosing function by name, plus the state."""

    def __init__(self, eng, st, entry=None, head=None):
        self.eng, self.st, self.entry, self.headst = eng, st, entry, head

    def at_head(self, name):
        """value of a local at the head of the (arbitrary) iteration being checked; None outside preservation"""
        if self.headst is None:
            return None
        return self.eng.local(self.headst, name)

    def __getitem__(self, name):
        return self.eng.local(self.st, name)

    def __getattr__(self, name):
        if name.startswith("_"):
            raise AttributeError(name)
        return self.eng.local(self.st, name)

    def old(self, name):
        return self.eng.local(self.entry, name)


class Sym(Exec):
    # ================================================================== decisions / paths
    def reset_run(self):
        self.decisions = []
        self.dpos = 0
        self.nofork = 0
        self.loop_counter = {}
        self.callstack = []

    def decide(self, st, cond, what="branch"):
        """Return True/False for an undecided condition, forking through the oracle."""
        c = simp(cond)
        if z3.is_true(c):
            return True
        if z3.is_false(c):
            return False
        if self.nofork:
            raise CannotMerge()
        if self.dpos < len(self.decisions):
            d = self.decisions[self.dpos]
            self.dpos += 1
        else:
            # new decision point: check feasibility of both sides (cheap), prefer True first
            ft = self.feasible(st, c)
            ff = self.feasible(st, z3.Not(c))
            if ft and not ff:
                d = True
                self.decisions.append(("forced", True))
            elif ff and not ft:
                d = False
                self.decisions.append(("forced", False))
            elif not ft and not ff:
                raise PathEnd("infeasible")
            else:
                d = True
                self.decisions.append(("open", True))
            self.dpos += 1
            st.assume(c if d else z3.Not(c))
            return d
        d = d[1]
        st.assume(c if d else z3.Not(c))
        return d

    def choose(self, st, n, what="choice"):
        """n-ary nondeterministic choice through the oracle (loop check vs exit, switch cases)."""
        if self.nofork:
            raise CannotMerge()
        if self.dpos < len(self.decisions):
            d = self.decisions[self.dpos][1]
            self.dpos += 1
            return d
        self.decisions.append(("choice", 0, n))
        self.dpos += 1
        return 0

    def feasible(self, st, c):
        if not getattr(self, "prune", True):
            return True
        s = z3.Solver()
        s.set("timeout", getattr(self, "prune_timeout", 300))
        for h in st.hyps():
            s.add(h)
        s.add(c)
        r = s.check()
        return r != z3.unsat

    def explore(self, task, max_paths=20000):
        """Run `task(engine)` once per path.  task builds its inputs, executes code, states goals."""
        pending = [[]]
        npaths = 0
        self.path_errors = []
        while pending:
            prefix = pending.pop()
            self.reset_run()
            self.decisions = list(prefix)
            try:
                task(self)
            except PathEnd:
                pass
            npaths += 1
            if npaths > max_paths:
                raise Unsupported("path explosion (> %d paths)" % max_paths)
            # schedule alternatives for decisions made beyond the prefix
            for k in range(len(prefix), len(self.decisions)):
                d = self.decisions[k]
                if d[0] == "open":
                    pending.append(self.decisions[:k] + [("taken", False)])
                elif d[0] == "choice":
                    for alt in range(1, d[2]):
                        pending.append(self.decisions[:k] + [("taken", alt)])
        self.dedupe()
        return npaths

    def dedupe(self):
        seen = {}
        out = []
        for ob in self.obligations:
            key = (ob.name, ob.goal.hash(), tuple(h.hash() for h in ob.hyps))
            if key in seen:
                continue
            seen[key] = ob
            out.append(ob)
        self.obligations = out

    # ================================================================== locals by name
    def local(self, st, name, frame=-1):
        fr = st.frames[frame]
        best = None
        for did, oid in fr.items():
            o = st.mem.objs.get(oid)
            if o is not None and getattr(o, "name", None) == name:
                best = o
        if best is None:
            raise KeyError("no local %s" % name)
        v = best.value if isinstance(best, Cell) else best
        return v

    def local_ptr(self, st, name, frame=-1):
        fr = st.frames[frame]
        best = None
        for did, oid in fr.items():
            o = st.mem.objs.get(oid)
            if o is not None and getattr(o, "name", None) == name:
                best = o
        if best is None:
            raise KeyError("no local %s" % name)
        return Ptr(best.id, ())

    # ================================================================== statements
    def exec_stmt(self, st, n):
        k = n["kind"]
        m = getattr(self, "st_" + k, None)
        if m is not None:
            return m(st, n)
        # expression statement
        self.rvalue(st, n)
        return NORMAL

    def st_CompoundStmt(self, st, n):
        items = n.get("inner", [])
        i = 0
        while i < len(items):
            fl = self.exec_stmt(st, items[i])
            if fl.kind == Flow.GOTO:
                j = self._find_label(items, fl.label)
                if j is None:
                    return fl
                if j <= i:
                    cnt = st.ghost.get("goto_back", 0) + 1
                    st.ghost["goto_back"] = cnt
                    if cnt > 64:
                        raise NeedsInvariant("backward goto loop")
                i = j
                continue
            if fl.kind != Flow.NORMAL:
                return fl
            i += 1
        return NORMAL

    def _find_label(self, items, label):
        for j, it in enumerate(items):
            if it.get("kind") == "LabelStmt" and it.get("name") == label:
                return j
        return None

    def st_LabelStmt(self, st, n):
        inner = n.get("inner", [])
        if inner:
            return self.exec_stmt(st, inner[0])
        return NORMAL

    def st_GotoStmt(self, st, n):
        # clang gives targetLabelDeclId; LabelStmt has declId
        return Flow(Flow.GOTO, label=self._label_name(n))

    def _label_name(self, n):
        tid = n.get("targetLabelDeclId")
        nm = self._labels().get(tid)
        if nm is None:
            raise Unsupported("goto target not found")
        return nm

    def _labels(self):
        fnname = self.callstack[-1]
        key = ("labels", fnname)
        if key not in self.math_cache:
            tu, fn = self.find_function(fnname)
            d = {}

            def walk(x):
                if isinstance(x, dict):
                    if x.get("kind") == "LabelStmt":
                        d[x.get("declId")] = x.get("name")
                    for c in x.get("inner", ()):
                        walk(c)
            walk(fn)
            self.math_cache[key] = d
        return self.math_cache[key]

    def st_NullStmt(self, st, n):
        return NORMAL

    def st_DeclStmt(self, st, n):
        for d in n.get("inner", []):
            if d["kind"] != "VarDecl":
                continue
            t = self.node_type(d)
            init = [c for c in d.get("inner", ()) if "Attr" not in c.get("kind", "")]
            if d.get("storageClass") == "static":
                obj = self.global_object(st, d["name"])
                st.frames[-1][d["id"]] = obj.id
                continue
            if init:
                v = self._init_value(st, init[0], t)
                if isinstance(v, ArrObj) and t.kind == "array":
                    v.name = d["name"]
                    if t.n is None:
                        pass
            else:
                if t.kind == "array" and t.n is None:
                    raise Unsupported("VLA %s" % d["name"])
                v = self.sym_value(t, "undef_%s!%d" % (d["name"], next(self.fresh_n)))
            if isinstance(v, ArrObj):
                obj = st.mem.add(v if v.id not in st.mem.objs else v.clone())
                obj.name = d["name"]
            else:
                obj = st.mem.add(Cell(t, v, d["name"]))
            st.frames[-1][d["id"]] = obj.id
        return NORMAL

    def st_ReturnStmt(self, st, n):
        inner = n.get("inner", [])
        v = self.rvalue(st, inner[0]) if inner else None
        return Flow(Flow.RETURN, v)

    def st_BreakStmt(self, st, n):
        return Flow(Flow.BREAK)

    def st_ContinueStmt(self, st, n):
        return Flow(Flow.CONTINUE)

    # ---- if with ite-merging -------------------------------------------------
    def st_IfStmt(self, st, n):
        inner = n["inner"]
        cond = as_bool(self.rvalue(st, inner[0]))
        c = simp(cond)
        then = inner[1]
        els = inner[2] if len(inner) > 2 else None
        if z3.is_true(c):
            return self.exec_stmt(st, then)
        if z3.is_false(c):
            return self.exec_stmt(st, els) if els is not None else NORMAL
        if self.merge_ifs and not self._has_jump(then) and (els is None or not self._has_jump(els)) \
                and not self._fork_requested(n):
            nob = len(self.obligations)
            saved_counters = {k: (v if not hasattr(v, "__next__") else None) for k, v in ()}
            try:
                self.nofork += 1
                s1 = st.clone()
                s1.assume(c)
                f1 = self.exec_stmt(s1, then)
                s2 = st.clone()
                s2.assume(z3.Not(c))
                f2 = self.exec_stmt(s2, els) if els is not None else NORMAL
                if f1.kind != Flow.NORMAL or f2.kind != Flow.NORMAL:
                    raise CannotMerge()
                # merge_into replaces st.mem.objs / extends st.pc before its trace and ghost checks can still raise
                # CannotMerge: without restoring, the fall-back below would execute the branch a second time on the
                # already merged state (x += 1 inside `if (c) { traced_call(); x += 1; }` was applied twice)
                snap = (st.mem.objs, len(st.pc), st.trace, dict(st.ghost))
                try:
                    self.merge_into(st, c, s1, s2)
                except CannotMerge:
                    st.mem.objs = snap[0]
                    del st.pc[snap[1]:]
                    st.trace, st.ghost = snap[2], snap[3]
                    raise
                self.nofork -= 1
                return NORMAL
            except CannotMerge as ex:
                self.nofork -= 1
                del self.obligations[nob:]
                if getattr(self, "debug_merge", False):
                    import traceback
                    print("CannotMerge at line", n.get("_line"), traceback.format_exc().splitlines()[-4:])
            except Exception:
                self.nofork -= 1
                raise
        if self.decide(st, c):
            return self.exec_stmt(st, then)
        return self.exec_stmt(st, els) if els is not None else NORMAL

    def _fork_requested(self, n):
        """packs may ask for a fork (no ite-merge) at an `if` whose branches declare one of the named locals, so that a
        later contract can still read those locals (merging drops branch-local objects)"""
        names = getattr(self, "fork_ifs_declaring", None)
        if not names:
            return False
        key = ("forkif", n.get("id"), tuple(sorted(names)))
        r = self.math_cache.get(key)
        if r is None:
            r = False
            stack = [c for c in n.get("inner", ())[1:] if isinstance(c, dict)]
            while stack:
                x = stack.pop()
                if x.get("kind") == "VarDecl" and x.get("name") in names:
                    r = True
                    break
                stack.extend(c for c in x.get("inner", ()) if isinstance(c, dict))
            self.math_cache[key] = r
        if r and self.nofork:
            raise CannotMerge()
        return r

    def _has_jump(self, n):
        key = ("jump", n.get("id"))
        r = self.math_cache.get(key)
        if r is None:
            r = False
            stack = [n]
            while stack:
                x = stack.pop()
                if x.get("kind") in ("ReturnStmt", "GotoStmt", "BreakStmt", "ContinueStmt"):
                    r = True
                    break
                stack.extend(c for c in x.get("inner", ()) if isinstance(c, dict))
            self.math_cache[key] = r
        return r

    def merge_into(self, st, c, s1, s2):
        """st := ite(c, s1, s2) for every location; raises CannotMerge when shapes differ."""
        base = len(st.pc)
        e1, e2 = s1.pc[base + 1:], s2.pc[base + 1:]      # skip the branch assumption itself
        newobjs = {}
        for oid, o in st.mem.objs.items():
            o1, o2 = s1.mem.objs.get(oid), s2.mem.objs.get(oid)
            if o1 is None or o2 is None:
                raise CannotMerge()
            newobjs[oid] = self._merge_obj(c, o1, o2)
        # objects created in the branches (locals of inlined calls) are dropped unless referenced
        for oid, o in s1.mem.objs.items():
            if oid not in newobjs and oid in s2.mem.objs:
                newobjs[oid] = self._merge_obj(c, o, s2.mem.objs[oid])
        st.mem.objs = newobjs
        for a in e1:
            st.pc.append(z3.Implies(c, a))
        for a in e2:
            st.pc.append(z3.Implies(z3.Not(c), a))
        if s1.trace != st.trace or s2.trace != st.trace:
            if [str(x) for x in s1.trace] == [str(x) for x in s2.trace]:
                st.trace = s1.trace
            elif getattr(self, "guarded_traces", False):
                # both branches extend the common trace: record the extensions under the branch condition
                nb = len(st.trace)
                st.trace = st.trace + [("guard", c, tuple(s1.trace[nb:]), tuple(s2.trace[nb:]))]
            else:
                raise CannotMerge()
        for k in set(s1.ghost) | set(s2.ghost):
            if k in s1.ghost and k in s2.ghost and (s1.ghost[k] is s2.ghost[k] or s1.ghost[k] == s2.ghost[k]):
                st.ghost[k] = s1.ghost[k]
            elif k.startswith("global:") and (k in s1.ghost) != (k in s2.ghost):
                # global materialised in one branch only: keep (objects are added above only if in both)
                oid = s1.ghost.get(k, s2.ghost.get(k))
                src = s1 if k in s1.ghost else s2
                st.mem.objs[oid] = src.mem.objs[oid]
                st.ghost[k] = oid
            elif k in st.ghost and k in s1.ghost and k in s2.ghost:
                raise CannotMerge()

    def _merge_val(self, c, a, b):
        if a is b:
            return a
        if is_z3(a) and is_z3(b):
            if a.eq(b):
                return a
            return self.ite(c, a, b)
        if isinstance(a, (StructObj,)) and isinstance(b, StructObj):
            return self._merge_obj(c, a, b)
        if isinstance(a, ArrObj) and isinstance(b, ArrObj):
            return self._merge_obj(c, a, b)
        if isinstance(a, Ptr) and isinstance(b, Ptr):
            if a.obj == b.obj and len(a.path) == len(b.path):
                path = []
                for x, y in zip(a.path, b.path):
                    if isinstance(x, str) or isinstance(y, str):
                        if x != y:
                            raise CannotMerge()
                        path.append(x)
                    else:
                        path.append(self._merge_val(c, as_int(x), as_int(y)))
                na, nb = a.null, b.null
                if na is nb or (is_z3(na) and is_z3(nb) and na.eq(nb)):
                    return Ptr(a.obj, path, na)
                tb = lambda x: z3.BoolVal(x) if isinstance(x, bool) else x
                return Ptr(a.obj, path, simp(z3.If(c, tb(na), tb(nb))))
            raise CannotMerge()
        if isinstance(a, Opaque) and isinstance(b, Opaque) and a.what == b.what:
            return a
        if isinstance(a, FuncRef) and isinstance(b, FuncRef) and a.name == b.name:
            return a
        if a is None and b is None:
            return None
        raise CannotMerge()

    def _merge_obj(self, c, o1, o2):
        if isinstance(o1, Cell) and isinstance(o2, Cell):
            r = o1.clone()
            r.value = self._merge_val(c, o1.value, o2.value)
            return r
        if isinstance(o1, StructObj) and isinstance(o2, StructObj):
            r = o1.clone()
            for f in set(o1.fields) | set(o2.fields):
                if f in o1.fields and f in o2.fields:
                    r.fields[f] = self._merge_val(c, o1.fields[f], o2.fields[f])
                else:
                    # lazily created in one branch only: deterministic naming makes a re-creation equal
                    src = o1 if f in o1.fields else o2
                    other = o2 if src is o1 else o1
                    v = self._lazy_field(other, f, None)
                    r.fields[f] = self._merge_val(c, o1.fields[f], o2.fields[f])
            return r
        if isinstance(o1, ArrObj) and isinstance(o2, ArrObj):
            if o1.mode != o2.mode:
                raise CannotMerge()
            r = o1.clone()
            if o1.mode == "list":
                if len(o1.items) != len(o2.items):
                    raise CannotMerge()
                r.items = [self._merge_val(c, x, y) for x, y in zip(o1.items, o2.items)]
            else:
                for leaf in set(o1.leaves) | set(o2.leaves):
                    a = o1.leaves.get(leaf)
                    b = o2.leaves.get(leaf)
                    if a is None:
                        a = self._leaf_array(o1, leaf)
                    if b is None:
                        b = self._leaf_array(o2, leaf)
                    r.leaves[leaf] = a if a.eq(b) else z3.If(c, a, b)
            fa, fb = o1.freed, o2.freed
            if fa is not fb:
                tb = lambda x: z3.BoolVal(x) if isinstance(x, bool) else x
                r.freed = simp(z3.If(c, tb(fa), tb(fb)))
            la, lb = o1.length, o2.length
            if la is not lb and not (is_z3(la) and is_z3(lb) and la.eq(lb)) and la != lb:
                r.length = self._merge_val(c, as_int(la), as_int(lb))
            return r
        if getattr(o1, "kind", None) == "file" and getattr(o2, "kind", None) == "file":
            r = o1.clone()
            r.pos = self._merge_val(c, as_int(o1.pos), as_int(o2.pos))
            r.size = self._merge_val(c, as_int(o1.size), as_int(o2.size))
            if o1.closed is not o2.closed:
                tb = lambda x: z3.BoolVal(x) if isinstance(x, bool) else x
                r.closed = simp(z3.If(c, tb(o1.closed), tb(o2.closed)))
            return r
        raise CannotMerge()

    # ---- switch ---------------------------------------------------------------
    def st_SwitchStmt(self, st, n):
        inner = n["inner"]
        cond = as_int(self.rvalue(st, inner[0]))
        body = inner[-1]
        items = body.get("inner", []) if body["kind"] == "CompoundStmt" else [body]
        # flatten: list of (case values or 'default' or None, stmt)
        flat = []
        for it in items:
            labels = []
            cur = it
            while cur.get("kind") in ("CaseStmt", "DefaultStmt"):
                if cur["kind"] == "CaseStmt":
                    labels.append(const_int(self.rvalue(st, cur["inner"][0])))
                    cur = cur["inner"][-1]
                else:
                    labels.append("default")
                    cur = cur["inner"][-1] if cur.get("inner") else {"kind": "NullStmt"}
            flat.append((labels, cur))
        allvals = [v for (ls, _s) in flat for v in ls if v != "default"]
        cc = const_int(cond)
        start = None
        if cc is not None:
            for i, (ls, _s) in enumerate(flat):
                if cc in ls:
                    start = i
            if start is None:
                for i, (ls, _s) in enumerate(flat):
                    if "default" in ls:
                        start = i
            if start is None:
                return NORMAL
        else:
            # symbolic: choose among feasible labels
            options = []
            for i, (ls, _s) in enumerate(flat):
                for v in ls:
                    if v == "default":
                        options.append((i, z3.And(*[cond != x for x in allvals]) if allvals else z3.BoolVal(True)))
                    else:
                        options.append((i, cond == v))
            if not any("default" in ls for (ls, _s) in flat):
                options.append((None, z3.And(*[cond != x for x in allvals]) if allvals else z3.BoolVal(True)))
            if self.dpos >= len(self.decisions):
                feas = [k for k, (_i, c) in enumerate(options) if self.feasible(st, c)]
                if not feas:
                    raise PathEnd("infeasible switch")
                st.ghost["_swfeas"] = feas
                if self.nofork:
                    raise CannotMerge()
                self.decisions.append(("choice", 0, len(feas)))
                self.dpos += 1
                pick = feas[0]
                # remember mapping for replays
                self.decisions[-1] = ("choice", 0, len(feas), tuple(feas))
            else:
                d = self.decisions[self.dpos]
                self.dpos += 1
                # we need the feasible list again (deterministic recomputation)
                feas = [k for k, (_i, c) in enumerate(options) if self.feasible(st, c)]
                pick = feas[d[1]]
            start, c = options[pick]
            st.assume(c)
            if start is None:
                return NORMAL
        for i in range(start, len(flat)):
            fl = self.exec_stmt(st, flat[i][1])
            if fl.kind == Flow.BREAK:
                return NORMAL
            if fl.kind != Flow.NORMAL:
                return fl
        return NORMAL

    # ---- loops ------------------------------------------------------------------
    def _loop_key(self, n):
        fn = self.callstack[-1] if self.callstack else "?"
        key = ("loopids", fn)
        ids = self.math_cache.get(key)
        if ids is None:
            tu, f = self.find_function(fn)
            ids = {}
            cnt = itertools.count()

            def walk(x):
                if isinstance(x, dict):
                    if x.get("kind") in ("ForStmt", "WhileStmt", "DoStmt"):
                        ids[x["id"]] = next(cnt)
                    for c in x.get("inner", ()):
                        walk(c)
            if f is not None:
                walk(f)
            self.math_cache[key] = ids
        return fn, ids.get(n["id"], -1)

    def st_ForStmt(self, st, n):
        init, _condvar, cond, inc, body = n["inner"]
        if init and init.get("kind"):
            self.exec_stmt(st, init)
        return self.loop(st, n, cond if cond and cond.get("kind") else None, inc if inc and inc.get("kind") else None, body, False)

    def st_WhileStmt(self, st, n):
        cond, body = n["inner"][0], n["inner"][-1]
        return self.loop(st, n, cond, None, body, False)

    def st_DoStmt(self, st, n):
        body, cond = n["inner"]
        return self.loop(st, n, cond, None, body, True)

    def loop(self, st, n, cond, inc, body, is_do):
        fn, ordinal = self._loop_key(n)
        spec = self.loopspecs.get((fn, ordinal))
        if spec is not None and spec.mode == "custom":
            return spec.invariant(self, st, n, cond, inc, body)
        if spec is not None and spec.invariant is not None:
            return self.loop_invariant(st, n, cond, inc, body, is_do, spec, fn, ordinal)
        limit = spec.unroll if (spec is not None and spec.unroll) else self.unroll_limit
        it = 0
        first = True
        while True:
            if not (is_do and first):
                if cond is not None:
                    c = simp(as_bool(self.rvalue(st, cond)))
                    if z3.is_false(c):
                        return NORMAL
                    if not z3.is_true(c):
                        if spec is not None and spec.unroll:
                            if not self.decide(st, c):
                                return NORMAL
                        else:
                            # try the solver: is the condition decided by the path condition?
                            ft = self.feasible(st, c)
                            ff = self.feasible(st, z3.Not(c)) if ft else True
                            if ft and ff:
                                raise NeedsInvariant("loop %s#%d (line %s): condition %s not decided; needs invariant" %
                                                     (fn, ordinal, n.get("_line"), c))
                            if not ft:
                                st.assume(z3.Not(c))
                                return NORMAL
                            st.assume(c)
            first = False
            fl = self.exec_stmt(st, body)
            if fl.kind == Flow.BREAK:
                return NORMAL
            if fl.kind in (Flow.RETURN, Flow.GOTO):
                return fl
            if inc is not None:
                self.rvalue(st, inc)
            it += 1
            if it > limit:
                raise NeedsInvariant("loop %s#%d exceeds unroll limit" % (fn, ordinal))

    def loop_invariant(self, st, n, cond, inc, body, is_do, spec, fn, ordinal):
        """Hoare rule: init, preservation (one arbitrary iteration), use after exit."""
        tag = "%s.loop%d" % (fn, ordinal)
        entry = st.clone()

        def inv_list(s, head=None):
            r = spec.invariant(LoopView(self, s, entry, head))
            if isinstance(r, (list, tuple)):
                return [(nm, g) for (nm, g) in r]
            return [("inv", r)]

        # 1. initialisation
        for nm, g in inv_list(st):
            self.oblige(st, "%s.init.%s" % (tag, nm), g, "loop", n)
        # 2. modified set by dry run(s)
        mods = self.loop_modifies(st, n, cond, inc, body, spec)
        # 3. havoc
        self.havoc(st, mods, tag)
        # optional pack-supplied havoc step for things the write log cannot see, e.g. a heap block that the body
        # realloc()s (new object, new length): spec.havoc_hook(engine, state) must only *forget* facts
        hook = getattr(spec, "havoc_hook", None)
        if hook is not None:
            hook(self, st)
        invs = inv_list(st)
        for nm, g in invs:
            st.assume(g)
        which = self.choose(st, 2, "loop")
        c = as_bool(self.rvalue(st, cond)) if cond is not None else z3.BoolVal(True)
        head_state = st.clone() if which == 0 else None
        if which == 0:
            # preservation path
            if not is_do:
                st.assume(c)
            v0 = spec.variant(LoopView(self, st, entry)) if spec.variant else None
            fl = self.exec_stmt(st, body)
            if fl.kind == Flow.BREAK:
                # leaves the loop from the middle of an arbitrary iteration
                st.ghost["loop_exit_by_break"] = True
                return NORMAL
            if fl.kind in (Flow.RETURN, Flow.GOTO):
                return fl
            if inc is not None:
                self.rvalue(st, inc)
            if is_do:
                c2 = as_bool(self.rvalue(st, cond))
                st.assume(c2)
            for nm, g in inv_list(st, head_state):
                self.oblige(st, "%s.preserve.%s" % (tag, nm), g, "loop", n)
            if v0 is not None:
                v1 = spec.variant(LoopView(self, st, entry))
                self.oblige(st, "%s.variant" % tag, z3.And(v1 < v0, v0 >= 0) if z3.is_int(v0) else z3.And(v1 <= v0 - 1, v0 >= 0), "loop", n)
            raise PathEnd("loop body checked")
        # exit path
        if z3.is_true(simp(c)):
            raise PathEnd("while(1): no normal exit")
        if is_do:
            # do-while: state after >=1 iterations satisfies invariant and !cond (invariant stated at loop end)
            st.assume(z3.Not(c))
        else:
            st.assume(z3.Not(c))
        return NORMAL

    def loop_modifies(self, st, n, cond, inc, body, spec):
        """Set of (object id, leaf) written by an arbitrary iteration: syntactic locals + dry runs."""
        ck = None
        if getattr(spec, "cache_mods", False):
            # opt-in (pack sets loopspecs[..].cache_mods = True): the write set of this loop is computed once per process
            # and reused on later path replays / dry-run rounds (object ids differ between replays: stored by name).
            # Only for loops whose write set does not depend on the call context or on the path taken to reach them.
            ck = (tuple(self.callstack), n["id"])
            hit = self.__dict__.setdefault("_mods_cache", {}).get(ck)
            r = self._mods_resolve(st, hit) if hit is not None else None
            if r is not None:
                return r
        mods = self._loop_modifies(st, n, cond, inc, body, spec)
        if ck is not None:
            d = self._mods_describe(st, mods)
            if d is not None:
                self._mods_cache[ck] = d
        return mods

    def _mods_names(self, st):
        locs = {}
        for fi, fr in enumerate(st.frames):
            for did, oid in fr.items():
                locs[oid] = ("local", fi - len(st.frames), did)
        names = {}
        for oid, o in st.mem.objs.items():
            if oid not in locs:
                names.setdefault((type(o).__name__, getattr(o, "name", None)), []).append(oid)
        return locs, names

    def _mods_describe(self, st, mods):
        locs, names = self._mods_names(st)
        out = []
        for (oid, leaf) in mods:
            if oid in locs:
                out.append((locs[oid], leaf))
                continue
            o = st.mem.objs.get(oid)
            key = (type(o).__name__, getattr(o, "name", None))
            if o is None or key[1] is None or len(names.get(key, ())) != 1:
                return None
            out.append((("obj",) + key, leaf))
        return out

    def _mods_resolve(self, st, desc):
        locs, names = self._mods_names(st)
        out = set()
        for (d, leaf) in desc:
            if d[0] == "local":
                if -d[1] > len(st.frames) or d[2] not in st.frames[d[1]]:
                    return None
                out.add((st.frames[d[1]][d[2]], leaf))
            else:
                ids = names.get((d[1], d[2]), ())
                if len(ids) != 1:
                    return None
                out.add((ids[0], leaf))
        return out

    def _loop_modifies(self, st, n, cond, inc, body, spec):
        mods = set()
        # locals assigned syntactically
        for did in self._assigned_decls(n):
            oid = st.frames[-1].get(did)
            if oid is not None:
                mods.add((oid, None))
        if spec.havoc_extra:
            for p in spec.havoc_extra(LoopView(self, st)):
                mods.add((p.obj, tuple(p.path) if p.path else None))
        for _round in range(4):
            s = st.clone()
            self.havoc(s, mods, "dry")
            if getattr(spec, "havoc_hook", None) is not None:
                spec.havoc_hook(self, s)
            s.log = set()
            saved = (self.decisions, self.dpos, self.nofork, len(self.obligations), self.check_defined)
            newm = set()
            pend = [[]]
            try:
                npaths = 0
                while pend:
                    pre = pend.pop()
                    self.decisions, self.dpos, self.nofork = list(pre), 0, 0
                    s2 = s.clone()
                    s2.log = set()
                    self.check_defined = False
                    try:
                        if cond is not None:
                            cc = as_bool(self.rvalue(s2, cond))
                        self.exec_stmt(s2, body)
                        if inc is not None:
                            self.rvalue(s2, inc)
                    except PathEnd:
                        pass
                    newm |= s2.log
                    npaths += 1
                    if npaths > 512:
                        raise Unsupported("dry-run path explosion")
                    for k in range(len(pre), len(self.decisions)):
                        d = self.decisions[k]
                        if d[0] == "open":
                            pend.append(self.decisions[:k] + [("taken", False)])
                        elif d[0] == "choice":
                            for alt in range(1, d[2]):
                                pend.append(self.decisions[:k] + [("taken", alt)])
            finally:
                self.decisions, self.dpos, self.nofork, nob, self.check_defined = saved
                del self.obligations[nob:]
            # keep only writes to objects that exist before the loop
            add = set()
            for (oid, leaf) in newm:
                if oid in st.mem.objs:
                    o = st.mem.objs[oid]
                    if isinstance(o, Cell) and o.id in st.frames[-1].values():
                        add.add((oid, None))
                    elif isinstance(o, ArrObj) and o.mode == "sym":
                        add.add((oid, leaf))
                    else:
                        add.add((oid, leaf))
            if add <= mods:
                break
            mods |= add
        return mods

    def _assigned_decls(self, n):
        key = ("assigned", n["id"])
        r = self.math_cache.get(key)
        if r is not None:
            return r
        out = set()

        def root_decl(x):
            while isinstance(x, dict):
                k = x.get("kind")
                if k == "DeclRefExpr":
                    return x["referencedDecl"]["id"]
                if k in ("ParenExpr", "ImplicitCastExpr", "CStyleCastExpr"):
                    x = x["inner"][0]
                elif k == "MemberExpr" and not x.get("isArrow"):
                    x = x["inner"][0]
                elif k == "ArraySubscriptExpr":
                    b = x["inner"][0]
                    # only local arrays (decay of a DeclRef of array type)
                    while b.get("kind") in ("ImplicitCastExpr", "ParenExpr"):
                        if b.get("castKind") == "LValueToRValue":
                            return None
                        b = b["inner"][0]
                    x = b
                else:
                    return None
            return None

        def walk(x):
            if not isinstance(x, dict):
                return
            k = x.get("kind")
            if k in ("BinaryOperator",) and x.get("opcode") == "=" or k == "CompoundAssignOperator":
                d = root_decl(x["inner"][0])
                if d:
                    out.add(d)
            elif k == "UnaryOperator" and x.get("opcode") in ("++", "--"):
                d = root_decl(x["inner"][0])
                if d:
                    out.add(d)
            elif k == "UnaryOperator" and x.get("opcode") == "&":
                d = root_decl(x["inner"][0])
                if d:
                    out.add(d)
            for c in x.get("inner", ()):
                walk(c)
        walk(n)
        self.math_cache[key] = out
        return out

    def havoc(self, st, mods, tag):
        for (oid, leaf) in sorted(mods, key=lambda x: (x[0], str(x[1]))):
            o = st.mem.objs.get(oid)
            if o is None:
                continue
            if getattr(o, "kind", None) == "file":
                # stream touched by the loop: its cursor at the head of an arbitrary iteration is arbitrary (>= 0)
                if leaf and leaf[0] == "closed":
                    raise Unsupported("fclose inside a loop with invariant")
                o.pos = self.fresh("%s_%s_pos" % (tag, o.name), z3.IntSort())
                st.assume(o.pos >= 0)
                continue
            if isinstance(o, Cell):
                if leaf:
                    self._havoc_path(st, o, leaf, tag)
                    continue
                v = o.value
                if isinstance(v, (Ptr, Opaque, FuncRef)):
                    # pointer local modified in loop: keep object, havoc last index if any
                    if isinstance(v, Ptr) and v.path and not isinstance(v.path[-1], str):
                        o.value = Ptr(v.obj, v.path[:-1] + (self.fresh("%s_%s" % (tag, o.name), z3.IntSort()),), v.null)
                    continue
                o.value = self._havoc_value(v, o.ctype, "%s_%s" % (tag, o.name))
            elif isinstance(o, ArrObj):
                if o.mode == "sym":
                    leaves = [leaf] if (leaf is not None and leaf in o.leaf_types) else \
                        [l for l in o.leaf_types if leaf is None or l[:len(leaf)] == tuple(leaf)]
                    for l in leaves:
                        lt = o.leaf_types[l]
                        srt = z3.IntSort() if lt.kind in ("ptr", "func") else sort_of(lt)
                        o.leaves[l] = z3.Const("%s_%s.%s!%d" % (tag, o.name, ".".join(map(str, l)), next(self.fresh_n)),
                                               z3.ArraySort(z3.IntSort(), srt))
                else:
                    o.items = [self._havoc_value(x, o.elem, "%s_%s[%d]" % (tag, o.name, i)) for i, x in enumerate(o.items)]
            elif isinstance(o, StructObj):
                self._havoc_path(st, o, leaf or (), tag)

    def _havoc_path(self, st, o, leaf, tag):
        v = o
        path = [p for p in leaf]
        parent, key = None, None
        while path:
            item = path.pop(0)
            while isinstance(v, Cell):
                parent, key, v = v, None, v.value
            if isinstance(v, StructObj):
                parent, key = v, item
                v = self._lazy_field(v, item, st)
            elif isinstance(v, ArrObj) and v.mode == "list":
                if item == "*":
                    v.items = [self._havoc_value(x, v.elem, "%s_%s" % (tag, v.name)) for x in v.items]
                    return
                ci = int(item)
                parent, key = v, ci
                v = v.items[ci]
            else:
                break
        if parent is None:
            for f in list(o.fields):
                o.fields[f] = self._havoc_value(o.fields[f], self.field_type(o.ctype.name, f), "%s_%s.%s" % (tag, o.name, f))
            return
        nm = "%s_%s" % (tag, key)
        if isinstance(parent, StructObj):
            parent.fields[key] = self._havoc_value(v, self.field_type(parent.ctype.name, key), nm)
        elif isinstance(parent, ArrObj):
            parent.items[key] = self._havoc_value(v, parent.elem, nm)
        elif isinstance(parent, Cell):
            parent.value = self._havoc_value(v, parent.ctype, nm)

    def _havoc_value(self, v, ctype, nm):
        if is_z3(v):
            return z3.Const("%s!%d" % (nm, next(self.fresh_n)), v.sort())
        if isinstance(v, StructObj):
            r = v.clone()
            for f in list(r.fields):
                r.fields[f] = self._havoc_value(r.fields[f], self.field_type(v.ctype.name, f), nm + "." + f)
            # fields not yet materialised stay lazy but must get new names
            r.name = "%s!%d" % (nm, next(self.fresh_n))
            return r
        if isinstance(v, ArrObj):
            r = v.clone()
            if r.mode == "list":
                r.items = [self._havoc_value(x, v.elem, "%s[%d]" % (nm, i)) for i, x in enumerate(r.items)]
            else:
                r.leaves = {}
                r.name = "%s!%d" % (nm, next(self.fresh_n))
            return r
        return v
