"""Memory model of the symbolic executor: field-sensitive objects holding z3 terms.

Objects
  Cell        one scalar / pointer / struct value (locals, by-value parameters)
  StructObj   named fields -> value (z3 term | Ptr | StructObj (inline) | ArrObj (inline))
  ArrObj      `list` mode: python list of element values (concrete small arrays)
              `sym`  mode: struct-of-arrays, one z3 Array(Int -> sort) per scalar leaf path,
                           index may be symbolic (particles[i].x == Select(P.x, i))
Pointers are (object, path) pairs; path items are field names or index terms.
"""
import itertools
import z3

_ids = itertools.count(1)


class Ptr:
    __slots__ = ("obj", "path", "null")

    def __init__(self, obj, path=(), null=False):
        self.obj = obj          # object id (int) or None for NULL
        self.path = tuple(path)
        self.null = null        # False | True | z3 Bool ("may be NULL under this condition")

    def is_null_const(self):
        return self.obj is None

    def __repr__(self):
        if self.obj is None:
            return "NULL"
        return "&obj%d%s" % (self.obj, "".join("[%s]" % (p,) for p in self.path))


NULL = Ptr(None, (), True)


class Opaque:
    """A value the executor does not interpret (FILE*, string literal, function pointer...)."""
    __slots__ = ("what", "tag")

    def __init__(self, what, tag=None):
        self.what = what
        self.tag = tag

    def __repr__(self):
        return "<%s>" % (self.what,)


class FuncRef:
    __slots__ = ("name",)

    def __init__(self, name):
        self.name = name

    def __repr__(self):
        return "<fn %s>" % self.name


class Cell:
    kind = "cell"

    def __init__(self, ctype, value=None, name=None):
        self.id = next(_ids)
        self.ctype = ctype
        self.value = value
        self.name = name

    def clone(self):
        c = Cell.__new__(Cell)
        c.id, c.ctype, c.name = self.id, self.ctype, self.name
        v = self.value
        c.value = v.clone() if isinstance(v, (StructObj, ArrObj)) else v
        return c


class StructObj:
    kind = "struct"

    def __init__(self, ctype, fields=None, name=None):
        self.id = next(_ids)
        self.ctype = ctype
        self.fields = fields if fields is not None else {}
        self.name = name

    def clone(self):
        c = StructObj.__new__(StructObj)
        c.id, c.ctype, c.name = self.id, self.ctype, self.name
        c.fields = {k: (v.clone() if isinstance(v, (StructObj, ArrObj)) else v) for k, v in self.fields.items()}
        return c


class ArrObj:
    kind = "array"

    def __init__(self, elem, length, mode, name=None):
        self.id = next(_ids)
        self.elem = elem          # CType of element
        self.length = length      # python int | z3 Int | None (unknown)
        self.mode = mode          # 'list' | 'sym'
        self.items = None         # list mode
        self.leaves = None        # sym mode: {leafpath(tuple of names/ints): z3 Array}
        self.leaf_types = None    # sym mode: {leafpath: CType}
        self.name = name
        self.freed = False        # False | True | z3 Bool

    def clone(self):
        c = ArrObj.__new__(ArrObj)
        c.__dict__.update(self.__dict__)      # keeps ghost attributes (is_bytes, raw_size, zeroed, ...)
        c.id, c.elem, c.length, c.mode, c.name, c.freed = self.id, self.elem, self.length, self.mode, self.name, self.freed
        c.leaf_types = self.leaf_types
        if self.mode == "list":
            c.items = [(v.clone() if isinstance(v, (StructObj, ArrObj)) else v) for v in self.items]
            c.leaves = None
        else:
            c.items = None
            c.leaves = dict(self.leaves)
        return c


class Memory:
    """Top-level objects by id; copy-on-fork."""

    def __init__(self):
        self.objs = {}

    def add(self, obj):
        self.objs[obj.id] = obj
        return obj

    def clone(self):
        m = Memory()
        m.objs = {k: o.clone() for k, o in self.objs.items()}
        return m

    def get(self, oid):
        return self.objs[oid]
